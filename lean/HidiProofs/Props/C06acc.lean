/-
  C06, accuracy clause — "within one step of the exact value".

  * `C06_shape_accuracy` : for every axis whose reported range fits in 32 bits (evdev values are `int32`), every
    deadzone in [0, 1), every position: the binary64 shaped value is within 2⁻¹⁷ of the exact rational
    `Spec.idealShape` (the reference the trace monitor `Spec.checkAbs` uses);
  * `C06_cc_accuracy*`, `C06_pb_accuracy*` : hence the transmitted 7-bit controller value / 14-bit pitch-bend value
    differs by at most one from the ideal `Spec.idealValue`, in all of the signed/unsigned × uni/bidirectional cases,
    flipped or not.
-/
import HidiProofs.AxisAccuracy
import HidiProofs.Props.C06
namespace Hidi.Props.C06
open Hidi Hidi.Spec Hidi.FloatLemmas Hidi.AxisLemmas Hidi.AxisAccuracy

/-- 2⁻¹⁷ -/
def δ : ℚ := (2:ℚ)^(-17:ℤ)

/-! ### the regime of a deadzone within 2⁻³² of 1 -/

theorem idealShape_max {mn mx : Int} {dzc : Bool} {dz : ℚ} (h : axisOK mn mx dzc dz mx = true) :
    idealShape mn mx dzc dz mx = 1 := by
  obtain ⟨_, hpos, _, _, _, h6, h7⟩ := axisOK_iff.mp h
  have hmx0 : (0 : ℚ) < mx := by exact_mod_cast hpos
  have hab : rabs (mx : ℚ) = (mx : ℚ) := by rw [rabs_eq, abs_of_pos hmx0]
  have hn : normI mn mx mx = 1 := by
    unfold normI; rw [if_neg (by omega), hab, div_self hmx0.ne']
  have hc : centreI dzc 1 = 1 := by unfold centreI; split_ifs <;> norm_num
  rw [idealShape_eq, hn, hc]
  unfold hI
  rw [if_neg (by norm_num), if_neg (by linarith), div_self (by linarith)]

theorem idealShape_min_signed {mn mx : Int} {dz : ℚ} (hmn : mn < 0) (h : axisOK mn mx false dz mn = true) :
    idealShape mn mx false dz mn = -1 := by
  obtain ⟨_, _, _, _, _, h6, h7⟩ := axisOK_iff.mp h
  have hmn0 : (mn : ℚ) < 0 := by exact_mod_cast hmn
  have hab : rabs (mn : ℚ) = -(mn : ℚ) := by rw [rabs_eq, abs_of_neg hmn0]
  have hn : normI mn mx mn = -1 := by
    unfold normI; rw [if_pos hmn, hab, div_neg, div_self hmn0.ne]
  have hc : centreI false (-1) = -1 := rfl
  rw [idealShape_eq, hn, hc]
  unfold hI
  rw [if_pos (by norm_num), if_neg (by linarith)]
  have : (-1 + dz) = -(1 - dz) := by ring
  rw [this, neg_div, div_self (by linarith)]

theorem idealShape_min_centred {mx : Int} {dz : ℚ} (h : axisOK 0 mx true dz 0 = true) :
    idealShape 0 mx true dz 0 = -1 := by
  obtain ⟨_, _, _, _, _, h6, h7⟩ := axisOK_iff.mp h
  have hn : normI 0 mx 0 = 0 := by simp [normI]
  have hc : centreI true 0 = -1 := by simp [centreI]
  rw [idealShape_eq, hn, hc]
  unfold hI
  rw [if_pos (by norm_num), if_neg (by linarith)]
  have : (-1 + dz) = -(1 - dz) := by ring
  rw [this, neg_div, div_self (by linarith)]

/-- away from the end stops the ideal centred position keeps a distance of 2⁻³¹ from ±1 -/
theorem interior_bound {mn mx : Int} {dzc : Bool} {dz : ℚ} {raw : Int} (h : axisOK mn mx dzc dz raw = true)
    (hmx : mx ≤ 2 ^ 31) (hmn : -(2 ^ 31) ≤ mn)
    (h1 : raw ≠ mx) (h2 : ¬ (raw = mn ∧ mn < 0)) (h3 : ¬ (raw = 0 ∧ dzc = true)) :
    |centreI dzc (normI mn mx raw)| ≤ 1 - (2:ℚ)^(-31:ℤ) := by
  obtain ⟨g1, g2, g3, g4, g5, _, _⟩ := axisOK_iff.mp h
  have hmxq : (mx : ℚ) ≤ 2 ^ 31 := by exact_mod_cast hmx
  have hmnq : -(2 ^ 31 : ℚ) ≤ mn := by exact_mod_cast hmn
  have hmx0 : (0 : ℚ) < mx := by exact_mod_cast g2
  have e31 : (2:ℚ)^(-31:ℤ) = 1 / 2 ^ 31 := by norm_num [zpow_neg]
  -- 1 / mx ≥ 2⁻³¹
  have hinv : (2:ℚ)^(-31:ℤ) ≤ 1 / mx := by
    rw [e31]; exact one_div_le_one_div_of_le hmx0 hmxq
  rw [abs_le]
  unfold centreI normI
  cases dzc with
  | true =>
    have hmn0 : mn = 0 := g5 rfl
    subst hmn0
    have hr0 : 0 ≤ raw := g3
    have hr1 : 1 ≤ raw := by
      rcases Int.lt_or_eq_of_le hr0 with hlt | heq
      · omega
      · exact absurd ⟨heq.symm, rfl⟩ h3
    have hr2 : raw ≤ mx - 1 := by omega
    have hab : rabs (mx : ℚ) = (mx : ℚ) := by rw [rabs_eq, abs_of_pos hmx0]
    simp only [if_true]
    rw [if_neg (by omega), hab]
    have hr1q : (1:ℚ) ≤ raw := by exact_mod_cast hr1
    have hr2q : (raw:ℚ) ≤ mx - 1 := by exact_mod_cast hr2
    have a1 : 1 / (mx:ℚ) ≤ raw / mx := div_le_div_of_nonneg_right hr1q hmx0.le
    have a2 : (raw:ℚ) / mx ≤ (mx - 1) / mx := div_le_div_of_nonneg_right hr2q hmx0.le
    have a3 : ((mx:ℚ) - 1) / mx = 1 - 1 / mx := by field_simp
    constructor <;> linarith
  | false =>
    simp only [Bool.false_eq_true, if_false]
    split_ifs with hr
    · have hmn0 : mn < 0 := by omega
      have hmnq0 : (mn : ℚ) < 0 := by exact_mod_cast hmn0
      have hab : rabs (mn : ℚ) = -(mn : ℚ) := by rw [rabs_eq, abs_of_neg hmnq0]
      have hpos : (0:ℚ) < -(mn : ℚ) := by linarith
      have hr1 : mn + 1 ≤ raw := by
        rcases Int.lt_or_eq_of_le g3 with hlt | heq
        · omega
        · exact absurd ⟨heq.symm, hmn0⟩ h2
      have hr1q : (mn:ℚ) + 1 ≤ raw := by exact_mod_cast hr1
      have hrq : (raw:ℚ) < 0 := by exact_mod_cast hr
      rw [hab]
      have hinv2 : (2:ℚ)^(-31:ℤ) ≤ 1 / (-(mn:ℚ)) := by
        rw [e31]; exact one_div_le_one_div_of_le hpos (by linarith)
      have a1 : ((mn:ℚ) + 1) / (-(mn:ℚ)) ≤ raw / (-(mn:ℚ)) := div_le_div_of_nonneg_right hr1q hpos.le
      have a3 : ((mn:ℚ) + 1) / (-(mn:ℚ)) = -1 + 1 / (-(mn:ℚ)) := by
        rw [add_div, div_neg, div_self hmnq0.ne]
      have a4 : (raw:ℚ) / (-(mn:ℚ)) ≤ 0 := div_nonpos_of_nonpos_of_nonneg hrq.le hpos.le
      have : (0:ℚ) < (2:ℚ)^(-31:ℤ) := zpow2_pos _
      have : (2:ℚ)^(-31:ℤ) ≤ 1 := by rw [e31]; norm_num
      constructor <;> linarith
    · have hr0 : 0 ≤ raw := by omega
      have hr2 : raw ≤ mx - 1 := by omega
      have hab : rabs (mx : ℚ) = (mx : ℚ) := by rw [rabs_eq, abs_of_pos hmx0]
      rw [hab]
      have hr0q : (0:ℚ) ≤ raw := by exact_mod_cast hr0
      have hr2q : (raw:ℚ) ≤ mx - 1 := by exact_mod_cast hr2
      have a1 : 0 ≤ (raw:ℚ) / mx := div_nonneg hr0q hmx0.le
      have a2 : (raw:ℚ) / mx ≤ (mx - 1) / mx := div_le_div_of_nonneg_right hr2q hmx0.le
      have a3 : ((mx:ℚ) - 1) / mx = 1 - 1 / mx := by field_simp
      have : (2:ℚ)^(-31:ℤ) ≤ 1 := by rw [e31]; norm_num
      constructor <;> linarith

theorem hI_zero {dz v : ℚ} (h : |v| < dz) : hI dz v = 0 := by
  rw [abs_lt] at h
  unfold hI
  split_ifs <;> first | rfl | linarith [h.1, h.2]

/-- the stages before the cut, together -/
theorem pre_close {mn mx : Int} {dzc : Bool} {dz : ℚ} {raw : Int} (h : axisOK mn mx dzc dz raw = true) :
    |centre dzc (normRaw mn mx raw) - centreI dzc (normI mn mx raw)| ≤ 8 * U ∧
    |centre dzc (normRaw mn mx raw)| ≤ 1 := by
  obtain ⟨_, _, h3, _, h5, _, _⟩ := axisOK_iff.mp h
  obtain ⟨a, b, c⟩ := normRaw_range h
  have hV : |normRaw mn mx raw| ≤ 1 := abs_le.mpr ⟨a, b⟩
  refine ⟨centre_close (norm_close h) hV, ?_⟩
  have hc : dzc = true → 0 ≤ normRaw mn mx raw := fun hd => c (by have := h5 hd; omega)
  obtain ⟨d, e⟩ := centre_range a b hc
  exact abs_le.mpr ⟨d, e⟩

/-- **accuracy of the shaped value**: within 2⁻¹⁷ of the exact rational transfer function -/
theorem C06_shape_accuracy {mn mx : Int} {dzc : Bool} {dz : ℚ} {raw : Int} (h : axisOK mn mx dzc dz raw = true)
    (hmx : mx ≤ 2 ^ 31) (hmn : -(2 ^ 31) ≤ mn) :
    |shapeRaw mn mx dzc dz raw - idealShape mn mx dzc dz raw| ≤ δ := by
  obtain ⟨g1, g2, g3, g4, g5, g6, g7⟩ := axisOK_iff.mp h
  have hδ : (0:ℚ) ≤ δ := (zpow2_pos _).le
  obtain ⟨hc, hV⟩ := pre_close h
  rcases le_or_gt ((2:ℚ)^(-32:ℤ)) (1 - dz) with hL | hL
  · rw [shapeRaw_eq, idealShape_eq]
    exact cut_close g6 g7 hV hc hL
  · -- the deadzone is within 2⁻³² of 1: end stops exact, everything else exactly 0 on both sides
    by_cases h1 : raw = mx
    · subst h1
      rw [C06_end_stop_max h, idealShape_max h]; simpa using hδ
    by_cases h2 : raw = mn ∧ mn < 0
    · obtain ⟨e, hlt⟩ := h2
      subst e
      have hd : dzc = false := by
        cases dzc with
        | false => rfl
        | true => have := g5 rfl; omega
      subst hd
      rw [C06_end_stop_min_signed hlt h, idealShape_min_signed hlt h]; simpa using hδ
    by_cases h3 : raw = 0 ∧ dzc = true
    · obtain ⟨e, hd⟩ := h3
      subst e; subst hd
      have : mn = 0 := g5 rfl
      subst this
      rw [C06_end_stop_min_centred h, idealShape_min_centred h]; simpa using hδ
    have hi := interior_bound h hmx hmn h1 h2 h3
    have e31 : (2:ℚ)^(-31:ℤ) = 1 / 2 ^ 31 := by norm_num [zpow_neg]
    have e32 : (2:ℚ)^(-32:ℤ) = 1 / 2 ^ 32 := by norm_num [zpow_neg]
    have hz1 : hI dz (centreI dzc (normI mn mx raw)) = 0 := by
      apply hI_zero
      rw [e31] at hi; rw [e32] at hL
      have : (1:ℚ) / 2 ^ 32 < 1 / 2 ^ 31 := by norm_num
      linarith
    have hz2 : hI dz (centre dzc (normRaw mn mx raw)) = 0 := by
      apply hI_zero
      have : |centre dzc (normRaw mn mx raw)| ≤ |centre dzc (normRaw mn mx raw) - centreI dzc (normI mn mx raw)| +
          |centreI dzc (normI mn mx raw)| := by
        have := abs_add_le (centre dzc (normRaw mn mx raw) - centreI dzc (normI mn mx raw)) (centreI dzc (normI mn mx raw))
        simpa using this
      rw [e31] at hi; rw [e32] at hL
      rw [U_val] at hc
      have : (8:ℚ) * (1 / 9007199254740992) + (1 - 1 / 2 ^ 31) < 1 - 1 / 2 ^ 32 := by norm_num
      linarith
    rw [shapeRaw_eq, idealShape_eq, dzCut_eq, hz1, hz2]
    simp [rnd53_zero]
    exact hδ

/-! ### from the shaped value to the transmitted value -/

theorem floor_close {p q : ℚ} (h : |p - q| < 1) : |⌊p⌋ - ⌊q⌋| ≤ 1 := by
  rw [abs_lt] at h
  have a1 := Int.floor_le p
  have a2 := Int.lt_floor_add_one p
  have b1 := Int.floor_le q
  have b2 := Int.lt_floor_add_one q
  rw [abs_le]
  constructor
  · have : (⌊q⌋ : ℚ) < ⌊p⌋ + 2 := by linarith [h.1, h.2]
    have : ⌊q⌋ < ⌊p⌋ + 2 := by exact_mod_cast this
    omega
  · have : (⌊p⌋ : ℚ) < ⌊q⌋ + 2 := by linarith [h.1, h.2]
    have : ⌊p⌋ < ⌊q⌋ + 2 := by exact_mod_cast this
    omega

/-- 2⁻¹⁵ -/
def η : ℚ := (2:ℚ)^(-15:ℤ)
theorem η_val : η = 1 / 32768 := by unfold η; norm_num [zpow_neg]
theorem δ_val : δ = 1 / 131072 := by unfold δ; norm_num [zpow_neg]

/-- 2⁻⁸ -/
def ηc : ℚ := (2:ℚ)^(-8:ℤ)
theorem ηc_val : ηc = 1 / 256 := by unfold ηc; norm_num [zpow_neg]

/-- a controller byte computed from a value within 2⁻⁸ of the ideal one is within one step of the ideal byte -/
theorem cc_close {a ai : ℚ} (h0 : 0 ≤ a) (h1 : a ≤ 1) (h : |a - ai| ≤ ηc) :
    |(ccByte a : ℤ) - ⌊127 * ai⌋| ≤ 1 := by
  obtain ⟨l, u⟩ := ftrunc127_range h0 h1
  obtain ⟨l', _⟩ := fmul127_range h0 h1
  have e1 : (ccByte a : ℤ) = ftrunc (fmul 127 a) := by unfold ccByte u8; omega
  have e2 : ftrunc (fmul 127 a) = ⌊fmul 127 a⌋ := by rw [ftrunc_def, if_neg (by linarith)]
  rw [e1, e2]
  apply floor_close
  unfold fmul
  have h2 : |127 * a - 127 * ai| ≤ 127 * ηc := by
    have : 127 * a - 127 * ai = 127 * (a - ai) := by ring
    rw [this, abs_mul]; norm_num; linarith
  have h3 : |127 * a| ≤ 127 := by rw [abs_mul, abs_of_nonneg h0]; norm_num; linarith
  have := rnd_close h2 h3
  rw [ηc_val, U_val] at this
  have : (127:ℚ) * (1 / 256) + 127 * (1 / 9007199254740992) < 1 := by norm_num
  linarith

theorem fround_nonneg_eq {q : ℚ} (h : 0 ≤ q) : fround q = ⌊q + 1/2⌋ := by
  rw [fround_def, if_neg (by linarith)]

/-- the same for the 14-bit pitch-bend value (round to nearest) -/
theorem pb_close {s si : ℚ} (h0 : 0 ≤ s) (h1 : s ≤ 1) (hi : 0 ≤ si) (h : |s - si| ≤ η) :
    |fround (fmul 16383 s) - rround (16383 * si)| ≤ 1 := by
  have hp : 0 ≤ fmul 16383 s := rnd53_nonneg (by linarith)
  have e : rround (16383 * si) = ⌊16383 * si + 1/2⌋ := by
    unfold rround; rw [if_neg (by linarith)]; rfl
  rw [fround_nonneg_eq hp, e]
  apply floor_close
  unfold fmul
  have h2 : |16383 * s - 16383 * si| ≤ 16383 * η := by
    have : 16383 * s - 16383 * si = 16383 * (s - si) := by ring
    rw [this, abs_mul]; norm_num; linarith
  have h3 : |16383 * s| ≤ 16383 := by rw [abs_mul, abs_of_nonneg h0]; norm_num; linarith
  have := rnd_close h2 h3
  rw [η_val, U_val] at this
  have : (16383:ℚ) * (1 / 32768) + 16383 * (1 / 9007199254740992) < 1 := by norm_num
  have e2 : rnd53 (16383 * s) + 1 / 2 - (16383 * si + 1 / 2) = rnd53 (16383 * s) - 16383 * si := by ring
  rw [e2]
  linarith

/-- flipping: within `e + 2U` -/
theorem flip_close {canNeg flip : Bool} {W w e : ℚ} (h : |W - w| ≤ e) (hW : |W| ≤ 1) :
    |flipVal canNeg flip W - idealFlip canNeg flip w| ≤ e + 2 * U := by
  have hU := U_pos
  have he : 0 ≤ e := le_trans (abs_nonneg _) h
  unfold flipVal idealFlip
  cases flip with
  | false => simp only [Bool.false_eq_true, if_false]; linarith
  | true =>
    simp only [if_true]
    cases canNeg with
    | true =>
      simp only [if_true]
      have : -W - -w = -(W - w) := by ring
      rw [this, abs_neg]; linarith
    | false =>
      simp only [Bool.false_eq_true, if_false]
      unfold fsub
      have h1 : |1 - W - (1 - w)| ≤ e := by
        have : 1 - W - (1 - w) = -(W - w) := by ring
        rw [this, abs_neg]; exact h
      have h2 : |1 - W| ≤ 2 := by rw [abs_le] at hW ⊢; constructor <;> linarith [hW.1, hW.2]
      exact rnd_close h1 h2

/-- the signed scaling `(v + 1) / 2` -/
theorem scale_close {v vi e : ℚ} (h : |v - vi| ≤ e) (h0 : -1 ≤ v) (h1 : v ≤ 1) :
    |fdiv (fadd v 1) 2 - (vi + 1) / 2| ≤ e / 2 + 2 * U := by
  have hU := U_pos
  unfold fdiv fadd
  have a1 : |v + 1 - (vi + 1)| ≤ e := by
    have : v + 1 - (vi + 1) = v - vi := by ring
    rw [this]; exact h
  have a2 : |v + 1| ≤ 2 := by rw [abs_le]; constructor <;> linarith
  have a3 := rnd_close a1 a2
  have b0 : 0 ≤ rnd53 (v + 1) := rnd53_nonneg (by linarith)
  have b2 : rnd53 (v + 1) ≤ 2 := by
    have := rnd53_mono (show v + 1 ≤ 2 by linarith); rwa [rnd53_two] at this
  have c1 : |rnd53 (v + 1) / 2 - (vi + 1) / 2| ≤ (e + 2 * U) / 2 := by
    rw [← sub_div, abs_div]; norm_num
    exact div_le_div_of_nonneg_right a3 (by norm_num)
  have c2 : |rnd53 (v + 1) / 2| ≤ 1 := by
    rw [abs_le]; constructor <;> linarith
  have := rnd_close c1 c2
  linarith

theorem idealShape_range {mn mx : Int} {dzc : Bool} {dz : ℚ} {raw : Int} (h : axisOK mn mx dzc dz raw = true) :
    |idealShape mn mx dzc dz raw| ≤ 1 ∧ (mn = 0 → dzc = false → 0 ≤ idealShape mn mx dzc dz raw) := by
  obtain ⟨g1, g2, g3, g4, g5, g6, g7⟩ := axisOK_iff.mp h
  have hs : 0 < 1 - dz := by linarith
  have hn := normI_range h
  have hc : |centreI dzc (normI mn mx raw)| ≤ 1 := by
    unfold centreI
    cases dzc with
    | false => simpa using hn
    | true =>
      simp only [if_true]
      have hmn0 : mn = 0 := g5 rfl
      have h0 : 0 ≤ normI mn mx raw := by
        unfold normI
        subst hmn0
        rw [if_neg (by omega)]
        have hmx0 : (0 : ℚ) < mx := by exact_mod_cast g2
        have hab : rabs (mx : ℚ) = (mx : ℚ) := by rw [rabs_eq, abs_of_pos hmx0]
        rw [hab]
        exact div_nonneg (by exact_mod_cast g3) hmx0.le
      rw [abs_le] at hn ⊢
      constructor <;> linarith [hn.1, hn.2]
  rw [idealShape_eq]
  constructor
  · rw [abs_div, abs_of_pos hs, div_le_one hs]
    exact hI_bound g6 g7 hc
  · intro hmn hd
    subst hmn; subst hd
    apply div_nonneg _ hs.le
    have h0 : 0 ≤ centreI false (normI 0 mx raw) := by
      unfold centreI normI
      simp only [Bool.false_eq_true, if_false]
      rw [if_neg (by omega)]
      have hmx0 : (0 : ℚ) < mx := by exact_mod_cast g2
      have hab : rabs (mx : ℚ) = (mx : ℚ) := by rw [rabs_eq, abs_of_pos hmx0]
      rw [hab]
      exact div_nonneg (by exact_mod_cast g3) hmx0.le
    unfold hI
    rw [if_neg (by linarith)]
    split_ifs <;> linarith

/-! ### the five cases -/

section cases
variable {mn mx : Int} {dzc : Bool} {dz : ℚ} {raw : Int}

/-- the flipped values, binary64 and ideal, are within 2⁻¹⁶ of each other -/
theorem flipped_close (h : axisOK mn mx dzc dz raw = true) (hmx : mx ≤ 2 ^ 31) (hmn : -(2 ^ 31) ≤ mn)
    (canNeg flip : Bool) :
    |flipVal canNeg flip (shapeRaw mn mx dzc dz raw) - idealFlip canNeg flip (idealShape mn mx dzc dz raw)| ≤
      (2:ℚ)^(-16:ℤ) := by
  obtain ⟨r0, r1⟩ := C06_shape_range h
  have := flip_close (canNeg := canNeg) (flip := flip) (C06_shape_accuracy h hmx hmn) (abs_le.mpr ⟨r0, r1⟩)
  rw [δ_val, U_val] at this
  have e : (2:ℚ)^(-16:ℤ) = 1 / 65536 := by norm_num [zpow_neg]
  rw [e]
  have : (1:ℚ) / 131072 + 2 * (1 / 9007199254740992) ≤ 1 / 65536 := by norm_num
  linarith

/-- **unsigned, unidirectional controller**: `byte(127·v)` is within one step of `⌊127·v_ideal⌋` -/
theorem C06_cc_accuracy_unsigned {flip : Bool} (h : axisOK 0 mx false dz raw = true) (hmx : mx ≤ 2 ^ 31) :
    |(ccByte (flipVal false flip (shapeRaw 0 mx false dz raw)) : ℤ) -
      ⌊127 * idealFlip false flip (idealShape 0 mx false dz raw)⌋| ≤ 1 := by
  obtain ⟨_, r1⟩ := C06_shape_range h
  have r0 := C06_shape_range_unsigned h
  obtain ⟨f0, f1⟩ := C06_flip_range_unsigned r0 r1 flip
  apply cc_close f0 f1
  have := flipped_close h hmx (by norm_num) false flip
  have e : (2:ℚ)^(-16:ℤ) = 1 / 65536 := by norm_num [zpow_neg]
  rw [ηc_val]; rw [e] at this
  have : (1:ℚ) / 65536 ≤ 1 / 256 := by norm_num
  linarith

/-- **signed (or centred), unidirectional controller**: `byte(127·(v+1)/2)` -/
theorem C06_cc_accuracy_signed {flip : Bool} (h : axisOK mn mx dzc dz raw = true) (hmx : mx ≤ 2 ^ 31)
    (hmn : -(2 ^ 31) ≤ mn) :
    |(ccByte (fdiv (fadd (flipVal true flip (shapeRaw mn mx dzc dz raw)) 1) 2) : ℤ) -
      ⌊127 * ((idealFlip true flip (idealShape mn mx dzc dz raw) + 1) / 2)⌋| ≤ 1 := by
  obtain ⟨r0, r1⟩ := C06_shape_range h
  obtain ⟨f0, f1⟩ := C06_flip_range_signed r0 r1 flip
  obtain ⟨s0, s1⟩ := C06_signed_scale f0 f1
  apply cc_close s0 s1
  have := scale_close (flipped_close h hmx hmn true flip) f0 f1
  have e : (2:ℚ)^(-16:ℤ) = 1 / 65536 := by norm_num [zpow_neg]
  rw [ηc_val]; rw [e, U_val] at this
  have : (1:ℚ) / 65536 / 2 + 2 * (1 / 9007199254740992) ≤ 1 / 256 := by norm_num
  linarith

/-- **signed (or centred), bidirectional controller**: `byte(127·|v|)` on either side -/
theorem C06_cc_accuracy_signed_bidir {flip : Bool} (h : axisOK mn mx dzc dz raw = true) (hmx : mx ≤ 2 ^ 31)
    (hmn : -(2 ^ 31) ≤ mn) :
    |(ccByte (rabs (flipVal true flip (shapeRaw mn mx dzc dz raw))) : ℤ) -
      ⌊127 * rabs (idealFlip true flip (idealShape mn mx dzc dz raw))⌋| ≤ 1 := by
  obtain ⟨r0, r1⟩ := C06_shape_range h
  obtain ⟨f0, f1⟩ := C06_flip_range_signed r0 r1 flip
  obtain ⟨a0, a1⟩ := rabs_le_one f0 f1
  apply cc_close a0 a1
  rw [rabs_eq, rabs_eq]
  have := flipped_close h hmx hmn true flip
  have e : (2:ℚ)^(-16:ℤ) = 1 / 65536 := by norm_num [zpow_neg]
  rw [ηc_val]; rw [e] at this
  have := abs_abs_sub_abs_le_abs_sub (flipVal true flip (shapeRaw mn mx dzc dz raw))
    (idealFlip true flip (idealShape mn mx dzc dz raw))
  have : (1:ℚ) / 65536 ≤ 1 / 256 := by norm_num
  linarith

/-- **unsigned, bidirectional controller**: `byte(127·|2v − 1|)` -/
theorem C06_cc_accuracy_unsigned_bidir {flip : Bool} (h : axisOK 0 mx false dz raw = true) (hmx : mx ≤ 2 ^ 31) :
    |(ccByte (rabs (fsub (fmul (flipVal false flip (shapeRaw 0 mx false dz raw)) 2) 1)) : ℤ) -
      ⌊127 * rabs (idealFlip false flip (idealShape 0 mx false dz raw) * 2 - 1)⌋| ≤ 1 := by
  obtain ⟨_, r1⟩ := C06_shape_range h
  have r0 := C06_shape_range_unsigned h
  obtain ⟨f0, f1⟩ := C06_flip_range_unsigned r0 r1 flip
  obtain ⟨c0, c1⟩ := recentre_range f0 f1
  obtain ⟨a0, a1⟩ := rabs_le_one c0 c1
  apply cc_close a0 a1
  rw [rabs_eq, rabs_eq]
  have hc := centre_close_gen (dzc := true) (flipped_close h hmx (by norm_num) false flip)
    (abs_le.mpr ⟨by linarith, f1⟩)
  simp only [centre, centreI, if_true] at hc
  have e : (2:ℚ)^(-16:ℤ) = 1 / 65536 := by norm_num [zpow_neg]
  rw [ηc_val]; rw [e, U_val] at hc
  have := abs_abs_sub_abs_le_abs_sub (fsub (fmul (flipVal false flip (shapeRaw 0 mx false dz raw)) 2) 1)
    (idealFlip false flip (idealShape 0 mx false dz raw) * 2 - 1)
  have : (2:ℚ) * (1 / 65536) + 5 * (1 / 9007199254740992) ≤ 1 / 256 := by norm_num
  linarith

/-- **pitch bend, signed (or centred) axis**: the 14-bit value is within one step of `round(16383·(v+1)/2)` -/
theorem C06_pb_accuracy_signed {flip : Bool} (h : axisOK mn mx dzc dz raw = true) (hmx : mx ≤ 2 ^ 31)
    (hmn : -(2 ^ 31) ≤ mn) :
    |pbTarget (flipVal true flip (shapeRaw mn mx dzc dz raw)) -
      rround (16383 * ((idealFlip true flip (idealShape mn mx dzc dz raw) + 1) / 2))| ≤ 1 := by
  obtain ⟨r0, r1⟩ := C06_shape_range h
  obtain ⟨f0, f1⟩ := C06_flip_range_signed r0 r1 flip
  obtain ⟨s0, s1⟩ := C06_signed_scale f0 f1
  obtain ⟨i1, _⟩ := idealShape_range h
  have hvi : -1 ≤ idealFlip true flip (idealShape mn mx dzc dz raw) := by
    rw [abs_le] at i1
    unfold idealFlip; split_ifs <;> linarith [i1.1, i1.2]
  unfold pbTarget
  apply pb_close s0 s1 (by linarith)
  have := scale_close (flipped_close h hmx hmn true flip) f0 f1
  have e : (2:ℚ)^(-16:ℤ) = 1 / 65536 := by norm_num [zpow_neg]
  rw [η_val]; rw [e, U_val] at this
  have : (1:ℚ) / 65536 / 2 + 2 * (1 / 9007199254740992) ≤ 1 / 32768 := by norm_num
  linarith

/-- **pitch bend, unsigned axis**: re-centred first (`2v − 1`) -/
theorem C06_pb_accuracy_unsigned {flip : Bool} (h : axisOK 0 mx false dz raw = true) (hmx : mx ≤ 2 ^ 31) :
    |pbTarget (fsub (fmul (flipVal false flip (shapeRaw 0 mx false dz raw)) 2) 1) -
      rround (16383 * ((idealFlip false flip (idealShape 0 mx false dz raw) * 2 - 1 + 1) / 2))| ≤ 1 := by
  obtain ⟨_, r1⟩ := C06_shape_range h
  have r0 := C06_shape_range_unsigned h
  obtain ⟨f0, f1⟩ := C06_flip_range_unsigned r0 r1 flip
  obtain ⟨c0, c1⟩ := recentre_range f0 f1
  obtain ⟨s0, s1⟩ := C06_signed_scale c0 c1
  obtain ⟨i1, i0⟩ := idealShape_range h
  have hvi : 0 ≤ idealFlip false flip (idealShape 0 mx false dz raw) := by
    have := i0 rfl rfl
    rw [abs_le] at i1
    cases flip
    · simpa [idealFlip] using this
    · simp only [idealFlip, if_true, Bool.false_eq_true, if_false]; linarith [i1.2]
  unfold pbTarget
  apply pb_close s0 s1 (by linarith)
  have hc := centre_close_gen (dzc := true) (flipped_close h hmx (by norm_num) false flip)
    (abs_le.mpr ⟨by linarith, f1⟩)
  simp only [centre, centreI, if_true] at hc
  have := scale_close hc c0 c1
  have e : (2:ℚ)^(-16:ℤ) = 1 / 65536 := by norm_num [zpow_neg]
  rw [η_val]; rw [e, U_val] at this
  have : ((2:ℚ) * (1 / 65536) + 5 * (1 / 9007199254740992)) / 2 + 2 * (1 / 9007199254740992) ≤ 1 / 32768 := by norm_num
  linarith

end cases

/-! ### the statement against `Dev.absCC` and `Spec.idealValue` -/

/-- the controller value `Dev.absCC` transmits first -/
def sentCC (a : Analog) (canNeg : Bool) (v : ℚ) : Nat :=
  if canNeg then (if a.bidir then ccByte (rabs v) else ccByte (fdiv (fadd v 1) 2))
  else (if a.bidir then ccByte (rabs (fsub (fmul v 2) 1)) else ccByte v)

/-- `sentCC` is what the engine sends: the first message of `absCC` carries it -/
theorem absCC_sends (d : Dev) (a : Analog) (canNeg : Bool) (v : ℚ) :
    ∃ ch cc rest, (d.absCC a canNeg v).2 = ccEvent ch cc (sentCC a canNeg v) :: rest := by
  unfold Dev.absCC sentCC Dev.bidirCC
  cases canNeg <;> cases a.bidir <;> simp only [if_true, Bool.false_eq_true, if_false]
  · exact ⟨_, _, [], rfl⟩
  · split <;> split <;> exact ⟨_, _, _, rfl⟩
  · exact ⟨_, _, [], rfl⟩
  · split <;> split <;> exact ⟨_, _, _, rfl⟩

/-- **accuracy of every controller value**: for an axis mapped to a controller, whatever its range (within 32 bits),
    deadzone, flip, centring and direction mode, the value the engine transmits is within one step of the value
    `Spec.idealValue` computes in exact arithmetic -/
theorem C06_cc_accuracy (a : Analog) (hk : a.kind = .cc) {mn mx : Int} {dz : ℚ} {raw : Int}
    (h : axisOK mn mx a.dzCenter dz raw = true) (hmx : mx ≤ 2 ^ 31) (hmn : -(2 ^ 31) ≤ mn) :
    let canNeg := decide (mn < 0) || a.dzCenter
    |(sentCC a canNeg (flipVal canNeg a.flip (shapeRaw mn mx a.dzCenter dz raw)) : ℤ) -
      (idealValue a canNeg (idealFlip canNeg a.flip (idealShape mn mx a.dzCenter dz raw))).2| ≤ 1 := by
  intro canNeg
  obtain ⟨g1, _, _, _, _, _, _⟩ := axisOK_iff.mp h
  unfold idealValue sentCC
  rw [hk]
  simp only
  cases hc : canNeg with
  | true =>
    simp only [if_true]
    cases a.bidir with
    | true => simp only [if_true]; exact C06_cc_accuracy_signed_bidir h hmx hmn
    | false => simp only [Bool.false_eq_true, if_false]; exact C06_cc_accuracy_signed h hmx hmn
  | false =>
    have hc' : (decide (mn < 0) || a.dzCenter) = false := hc
    simp only [Bool.or_eq_false_iff, decide_eq_false_iff_not] at hc'
    have hmn0 : mn = 0 := by omega
    subst hmn0
    rw [hc'.2] at h ⊢
    simp only [Bool.false_eq_true, if_false]
    cases a.bidir with
    | true => simp only [if_true]; exact C06_cc_accuracy_unsigned_bidir h hmx
    | false => simp only [Bool.false_eq_true, if_false]; exact C06_cc_accuracy_unsigned h hmx

/-- **accuracy of every pitch-bend value** -/
theorem C06_pb_accuracy (a : Analog) (hk : a.kind = .pitchBend) {mn mx : Int} {dz : ℚ} {raw : Int}
    (h : axisOK mn mx a.dzCenter dz raw = true) (hmx : mx ≤ 2 ^ 31) (hmn : -(2 ^ 31) ≤ mn) :
    let canNeg := decide (mn < 0) || a.dzCenter
    let v := flipVal canNeg a.flip (shapeRaw mn mx a.dzCenter dz raw)
    |pbTarget (if canNeg then v else fsub (fmul v 2) 1) -
      (idealValue a canNeg (idealFlip canNeg a.flip (idealShape mn mx a.dzCenter dz raw))).2| ≤ 1 := by
  intro canNeg v
  obtain ⟨g1, _, _, _, _, _, _⟩ := axisOK_iff.mp h
  unfold idealValue
  rw [hk]
  simp only
  cases hc : canNeg with
  | true =>
    simp only [if_true]
    have : v = flipVal true a.flip (shapeRaw mn mx a.dzCenter dz raw) := by show flipVal canNeg _ _ = _; rw [hc]
    rw [this]
    exact C06_pb_accuracy_signed h hmx hmn
  | false =>
    have hc' : (decide (mn < 0) || a.dzCenter) = false := hc
    simp only [Bool.or_eq_false_iff, decide_eq_false_iff_not] at hc'
    have hmn0 : mn = 0 := by omega
    subst hmn0
    have hv : v = flipVal false a.flip (shapeRaw 0 mx a.dzCenter dz raw) := by show flipVal canNeg _ _ = _; rw [hc]
    rw [hv]
    rw [hc'.2] at h ⊢
    simp only [Bool.false_eq_true, if_false]
    exact C06_pb_accuracy_unsigned h hmx

/-! ### non-vacuity -/

example : axisOK (-32768) 32767 false (rnd53 (1/20)) 12345 = true := by
  have a : 0 ≤ rnd53 (1/20) := rnd53_nonneg (by norm_num)
  have b : rnd53 (1/20) ≤ 1/2 := by
    have := rnd53_mono (show (1/20 : ℚ) ≤ 1/2 by norm_num); rwa [rnd53_half] at this
  exact axisOK_iff.mpr ⟨by norm_num, by norm_num, by norm_num, by norm_num, by simp, a, by linarith⟩
example : (32767 : Int) ≤ 2 ^ 31 ∧ -(2 ^ 31 : Int) ≤ -32768 := by norm_num
/-- a deadzone closer to 1 than 2⁻³² is inside the quantifier too (second regime of `C06_shape_accuracy`) -/
example : axisOK 0 255 true (1 - 1 / 2 ^ 40) 17 = true := axisOK_iff.mpr (by norm_num)

end Hidi.Props.C06
