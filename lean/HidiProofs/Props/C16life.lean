/-
  C16, termination clause — "processing for a device always ends promptly once its event stream ends and leaves no
  background activity behind, whatever it was doing".  Theorems about the life-cycle transition system `Hidi.Life`
  (three goroutines, two mutexes), for every schedule:

  * `C16_life_source_facts`   : the structural facts the model is built from, regenerated from the sources on every run:
                                every waiting loop of `handleOpenrgb` / `handleInputEvents` has a `ctx.Done()` case that
                                leaves it; `ProcessEvents` does range → cancel → clean-up under the event mutex → `wg.Wait()`;
                                both handlers `defer wg.Done()`; the only lock nesting is event mutex ⊃ tracker mutex;
  * `C16_life_mutual_exclusion` : in every reachable state each mutex has at most one holder, and the tracker mutex is taken
                                by the main and the LED goroutine only inside the event mutex (one lock order: no cycle);
  * `C16_life_wait_means_finished` : `ProcessEvents` returns only after both other goroutines have returned;
  * `C16_life_terminates`     : from **every** reachable state in which the input has ended — whichever goroutine holds
                                whichever mutex, a panic being handled, a frame being painted, a MIDI message being
                                recorded — at most 973 further steps of the three goroutines themselves (no input, no MIDI
                                message needed), each enabled when taken, bring all three to their end;
  * `C16_life_no_deadlock`    : in particular some goroutine can always move.
-/
import HidiProofs.LifeLemmas
import Hidi.Gen.Tables
namespace Hidi.Props.C16
open Hidi Hidi.Life Hidi.LifeLemmas

theorem C16_life_source_facts :
    Gen.lifeLedLoopsWatchCtx = true ∧ Gen.lifeMidiInLoopsWatchCtx = true ∧ Gen.lifeProcessEventsOrderOK = true ∧
    Gen.lifeHandlersDeferDone = true ∧
    Gen.deviceLockNesting = [("ProcessEvents", "eventProcessMutex", "externalTrackerMutex"),
                             ("handleOpenrgb", "eventProcessMutex", "externalTrackerMutex")] := by decide

/-- **mutual exclusion and lock order**, every schedule -/
theorem C16_life_mutual_exclusion (steps : List Step) :
    let s := run {} steps
    ¬ (mainHoldsE s.main = true ∧ ledHoldsE s.led = true) ∧
    ¬ (mainHoldsX s.main = true ∧ ledHoldsX s.led = true) ∧ ¬ (mainHoldsX s.main = true ∧ midiHoldsX s.midi = true) ∧
    ¬ (ledHoldsX s.led = true ∧ midiHoldsX s.midi = true) ∧
    (mainHoldsX s.main = true → mainHoldsE s.main = true) ∧ (ledHoldsX s.led = true → ledHoldsE s.led = true) := by
  intro s
  have h := run_inv steps {} inv_init
  rw [inv_eq] at h
  show ¬ (mainHoldsE s.main = true ∧ ledHoldsE s.led = true) ∧ _
  generalize mainHoldsE s.main = a at *
  generalize mainHoldsX s.main = b at *
  generalize ledHoldsE s.led = c at *
  generalize ledHoldsX s.led = d at *
  generalize midiHoldsX s.midi = e at *
  cases a <;> cases b <;> cases c <;> cases d <;> cases e <;> simp_all [invB]

/-- `ProcessEvents` has returned only if the LED goroutine and the MIDI-input goroutine have returned: nothing is left behind -/
theorem C16_life_wait_means_finished (steps : List Step) :
    (run {} steps).main = .done → (run {} steps).led = .done ∧ (run {} steps).midi = .done :=
  run_doneOK steps {} (by intro h; cases h)

/-- **termination** from every reachable state once the input has ended -/
theorem C16_life_terminates (steps : List Step) :
    let s := run {} steps
    s.closed = true →
    ∃ sched : List Step, sched.length ≤ 973 ∧ GoodSchedule s sched ∧ allDone (run s sched) = true := by
  intro s hc
  have hi : inv s = true := run_inv steps {} inv_init
  have hd : doneOK s := run_doneOK steps {} (by intro h; cases h)
  refine ⟨driveSteps 973 s, driveSteps_length _ _, driveSteps_good _ s hi hd hc, ?_⟩
  rw [drive_is_run _ s hi hd hc]
  exact drive_done 973 s hi hd hc (measure_le s)

/-- **no deadlock** after the input has ended: a goroutine step is enabled as long as not all three have finished -/
theorem C16_life_no_deadlock (steps : List Step) :
    let s := run {} steps
    s.closed = true → allDone s = false → ∃ x, enabled s x = true ∧ x ≠ .unplug ∧ x ≠ .midiArrives ∧ ∀ p, x ≠ .mainTake p := by
  intro s hc hnd
  have hi : inv s = true := run_inv steps {} inv_init
  have hd : doneOK s := run_doneOK steps {} (by intro h; cases h)
  generalize s = t at *
  obtain ⟨m, l, i, c⟩ := t
  simp only at hc; subst hc
  obtain ⟨he, -, -⟩ := helper_ok m l i hi hd hnd
  obtain ⟨g1, g2, g3⟩ := helper_internal m l i
  exact ⟨_, he, g1, g2, g3⟩

/-! ### non-vacuity: unplugged while the main goroutine handles a panic (holds the event mutex, wants the tracker mutex),
    the MIDI-input goroutine holds the tracker mutex, and the LED goroutine waits for the event mutex -/

def nasty : List Step :=
  [.ledConnected, .ledCheck, .ledWake, .midiArrives, .midiLockX, .mainTake true, .mainLockE, .unplug]

example : run {} nasty = ⟨.inE true, .wantE, .inX, true⟩ := by decide
example : driveSteps 973 (run {} nasty) =
    [.midiUnlockX, .mainLockX, .mainUnlockX, .mainUnlockE, .mainSeeClosed, .mainCancel, .mainLockEc, .mainUnlockEc,
     .ledLockE, .ledLockX, .ledUnlockX, .ledUnlockE, .ledCheck, .ledClose, .midiSeeCancel, .mainWaitDone] := by decide

end Hidi.Props.C16
