/-
  C07 — bidirectional controller: one side at a time, the side left behind is explicitly zeroed;
  while CC learning is held, deflections up to half travel transmit nothing.

  Model: `Dev.bidirCC` / `Dev.absCC` / `Dev.handleAbs` (`Hidi/Engine.lean`).  The receiver is
  `Spec.recvCC` folded over the emitted messages, read with `Spec.ccOf` (last value per
  (channel, controller), 0 when never set).
-/
import Hidi
import HidiProofs.AxisKeyLemmas
namespace Hidi.Props.C07
open Hidi Hidi.Spec Hidi.AxisKeyLemmas

/-- what the device believes (`ccZeroed`) is true at the receiver, and at most one side is non-zero -/
def SideInv (a : Analog) (chP chN : Nat) (d : Dev) (R : List ((Nat × Nat) × Nat)) : Prop :=
  (a.cc ∈ d.ccZeroed → ccOf R (chP, a.cc) = 0) ∧ (a.ccNeg ∈ d.ccZeroed → ccOf R (chN, a.ccNeg) = 0) ∧
  (ccOf R (chP, a.cc) = 0 ∨ ccOf R (chN, a.ccNeg) = 0)

/-! ### `bidirCC` without the `let`s -/

theorem bidirCC_neg (d : Dev) (a : Analog) (adj : Rat) :
    d.bidirCC a true adj =
      if a.cc ∈ d.ccZeroed then
        (d.setZeroed a.ccNeg false, [ccEvent (chanOf d.channel a.chOffNeg) a.ccNeg (ccByte adj)])
      else
        ((d.setZeroed a.cc true).setZeroed a.ccNeg false,
         [ccEvent (chanOf d.channel a.chOffNeg) a.ccNeg (ccByte adj), ccEvent (chanOf d.channel a.chOff) a.cc 0]) := by
  unfold Dev.bidirCC
  by_cases h : a.cc ∈ d.ccZeroed <;> simp [h]

theorem bidirCC_pos (d : Dev) (a : Analog) (adj : Rat) :
    d.bidirCC a false adj =
      if a.ccNeg ∈ d.ccZeroed then
        (d.setZeroed a.cc false, [ccEvent (chanOf d.channel a.chOff) a.cc (ccByte adj)])
      else
        ((d.setZeroed a.ccNeg true).setZeroed a.cc false,
         [ccEvent (chanOf d.channel a.chOff) a.cc (ccByte adj), ccEvent (chanOf d.channel a.chOffNeg) a.ccNeg 0]) := by
  unfold Dev.bidirCC
  by_cases h : a.ccNeg ∈ d.ccZeroed <;> simp [h]

theorem setZeroed_channel (d : Dev) (c : Nat) (b : Bool) : (d.setZeroed c b).channel = d.channel := rfl
theorem setZeroed_true (d : Dev) (c : Nat) : (d.setZeroed c true).ccZeroed = sinsert c d.ccZeroed := rfl
theorem setZeroed_false (d : Dev) (c : Nat) : (d.setZeroed c false).ccZeroed = serase c d.ccZeroed := rfl

/-- `bidirCC` never changes the device's channel -/
theorem bidirCC_channel (d : Dev) (a : Analog) (neg : Bool) (adj : Rat) :
    (d.bidirCC a neg adj).1.channel = d.channel := by
  cases neg
  · rw [bidirCC_pos]; split <;> rfl
  · rw [bidirCC_neg]; split <;> rfl

/-! ### the theorems -/

/-- the invariant holds initially (nothing zeroed, receiver silent) -/
theorem C07_init (a : Analog) (chP chN : Nat) (cfg : Config) : SideInv a chP chN (Dev.init cfg) [] := by
  refine ⟨?_, ?_, Or.inl rfl⟩ <;> intro h <;> simp [Dev.init] at h

/-- general form of the step: the channels only need to be what `bidirCC` computes; none of the range
    assumptions is needed (a channel computed by `chanOf` is always below 16) -/
theorem step_core (a : Analog) (d : Dev) (R : List ((Nat × Nat) × Nat)) (neg : Bool) (adj : Rat)
    (hd : a.cc ≠ a.ccNeg)
    (hinv : SideInv a (chanOf d.channel a.chOff) (chanOf d.channel a.chOffNeg) d R) :
    SideInv a (chanOf d.channel a.chOff) (chanOf d.channel a.chOffNeg) (d.bidirCC a neg adj).1
      ((d.bidirCC a neg adj).2.foldl recvCC R) ∧
    (if neg then ccOf ((d.bidirCC a neg adj).2.foldl recvCC R) (chanOf d.channel a.chOff, a.cc) = 0
     else ccOf ((d.bidirCC a neg adj).2.foldl recvCC R) (chanOf d.channel a.chOffNeg, a.ccNeg) = 0) ∧
    ccOf ((d.bidirCC a neg adj).2.foldl recvCC R)
      (if neg then (chanOf d.channel a.chOffNeg, a.ccNeg) else (chanOf d.channel a.chOff, a.cc)) = ccByte adj := by
  obtain ⟨hP, hN, _⟩ := hinv
  have hcP := chanOf_lt d.channel a.chOff
  have hcN := chanOf_lt d.channel a.chOffNeg
  have kne : (chanOf d.channel a.chOff, a.cc) ≠ (chanOf d.channel a.chOffNeg, a.ccNeg) := by
    intro h; exact hd (Prod.mk.inj h).2
  have hd' : a.ccNeg ≠ a.cc := fun h => hd h.symm
  cases neg
  · -- positive side
    rw [bidirCC_pos]
    by_cases hz : a.ccNeg ∈ d.ccZeroed
    · have z : ccOf (ainsert (chanOf d.channel a.chOff, a.cc) (ccByte adj) R) (chanOf d.channel a.chOffNeg, a.ccNeg) = 0 := by
        rw [ccOf_ainsert_ne R kne.symm]; exact hN hz
      simp only [if_pos hz, List.foldl_cons, List.foldl_nil, recvCC_ccEvent hcP, Bool.false_eq_true, if_false]
      refine ⟨⟨?_, fun _ => z, Or.inr z⟩, z, ccOf_ainsert_self _ _ _⟩
      intro hm
      rw [setZeroed_false, mem_serase] at hm
      exact absurd rfl hm.2
    · have z : ccOf (ainsert (chanOf d.channel a.chOffNeg, a.ccNeg) 0
            (ainsert (chanOf d.channel a.chOff, a.cc) (ccByte adj) R)) (chanOf d.channel a.chOffNeg, a.ccNeg) = 0 :=
        ccOf_ainsert_self _ _ _
      simp only [if_neg hz, List.foldl_cons, List.foldl_nil, recvCC_ccEvent hcP, recvCC_ccEvent hcN,
        Bool.false_eq_true, if_false]
      refine ⟨⟨?_, fun _ => z, Or.inr z⟩, z, ?_⟩
      · intro hm
        rw [setZeroed_false, mem_serase] at hm
        exact absurd rfl hm.2
      · rw [ccOf_ainsert_ne _ kne, ccOf_ainsert_self]
  · -- negative side
    rw [bidirCC_neg]
    by_cases hz : a.cc ∈ d.ccZeroed
    · have z : ccOf (ainsert (chanOf d.channel a.chOffNeg, a.ccNeg) (ccByte adj) R) (chanOf d.channel a.chOff, a.cc) = 0 := by
        rw [ccOf_ainsert_ne R kne]; exact hP hz
      simp only [if_pos hz, List.foldl_cons, List.foldl_nil, recvCC_ccEvent hcN, if_true]
      refine ⟨⟨fun _ => z, ?_, Or.inl z⟩, z, ccOf_ainsert_self _ _ _⟩
      intro hm
      rw [setZeroed_false, mem_serase] at hm
      exact absurd rfl hm.2
    · have z : ccOf (ainsert (chanOf d.channel a.chOff, a.cc) 0
            (ainsert (chanOf d.channel a.chOffNeg, a.ccNeg) (ccByte adj) R)) (chanOf d.channel a.chOff, a.cc) = 0 :=
        ccOf_ainsert_self _ _ _
      simp only [if_neg hz, List.foldl_cons, List.foldl_nil, recvCC_ccEvent hcP, recvCC_ccEvent hcN, if_true]
      refine ⟨⟨fun _ => z, ?_, Or.inl z⟩, z, ?_⟩
      · intro hm
        rw [setZeroed_false, mem_serase] at hm
        exact absurd rfl hm.2
      · rw [ccOf_ainsert_ne _ kne.symm, ccOf_ainsert_self]

/-- one transmitted event keeps the invariant, and afterwards the side NOT deflected to is 0 at the receiver -/
theorem C07_step (a : Analog) (d : Dev) (R : List ((Nat × Nat) × Nat)) (neg : Bool) (adj : Rat)
    (hd : a.cc ≠ a.ccNeg) (_hch : d.channel < 16) (_hoP : a.chOff ≤ 15) (_hoN : a.chOffNeg ≤ 15)
    (_hcP : a.cc ≤ 119) (_hcN : a.ccNeg ≤ 119)
    (hinv : SideInv a (chanOf d.channel a.chOff) (chanOf d.channel a.chOffNeg) d R) :
    let r := d.bidirCC a neg adj
    SideInv a (chanOf d.channel a.chOff) (chanOf d.channel a.chOffNeg) r.1 (r.2.foldl recvCC R) ∧
    (if neg then ccOf (r.2.foldl recvCC R) (chanOf d.channel a.chOff, a.cc) = 0
     else ccOf (r.2.foldl recvCC R) (chanOf d.channel a.chOffNeg, a.ccNeg) = 0) ∧
    r.1.channel = d.channel := by
  intro r
  have h := step_core a d R neg adj hd hinv
  exact ⟨h.1, h.2.1, bidirCC_channel d a neg adj⟩

/-- the transmitted value goes to the side deflected to -/
theorem C07_side_value (a : Analog) (d : Dev) (R : List ((Nat × Nat) × Nat)) (neg : Bool) (adj : Rat)
    (hd : a.cc ≠ a.ccNeg) (_hch : d.channel < 16) (_hoP : a.chOff ≤ 15) (_hoN : a.chOffNeg ≤ 15)
    (_hcP : a.cc ≤ 119) (_hcN : a.ccNeg ≤ 119)
    (hinv : SideInv a (chanOf d.channel a.chOff) (chanOf d.channel a.chOffNeg) d R) :
    ccOf ((d.bidirCC a neg adj).2.foldl recvCC R)
      (if neg then (chanOf d.channel a.chOffNeg, a.ccNeg) else (chanOf d.channel a.chOff, a.cc)) = ccByte adj :=
  (step_core a d R neg adj hd hinv).2.2

/-- general form of `C07_explicit_zero` (no range assumptions needed) -/
theorem explicit_zero_core (a : Analog) (d : Dev) (neg : Bool) (adj : Rat)
    (h : (if neg then a.cc else a.ccNeg) ∉ d.ccZeroed) :
    (if neg then ccMsg (chanOf d.channel a.chOff) a.cc 0 else ccMsg (chanOf d.channel a.chOffNeg) a.ccNeg 0)
      ∈ (d.bidirCC a neg adj).2 := by
  cases neg
  · simp only [Bool.false_eq_true, if_false] at h ⊢
    rw [bidirCC_pos, if_neg h, ← ccEvent_eq_ccMsg (chanOf_lt _ _)]
    simp
  · simp only [if_true] at h ⊢
    rw [bidirCC_neg, if_neg h, ← ccEvent_eq_ccMsg (chanOf_lt _ _)]
    simp

/-- crossing: if the controller being left is not marked zeroed (in particular: if the previous transmitted event
    was on the other side, see `C07_marks` and `C07_crossing`), an explicit 0 for it is part of the output -/
theorem C07_explicit_zero (a : Analog) (d : Dev) (neg : Bool) (adj : Rat)
    (_hd : a.cc ≠ a.ccNeg) (_hch : d.channel < 16) (_hoP : a.chOff ≤ 15) (_hoN : a.chOffNeg ≤ 15)
    (_hcP : a.cc ≤ 119) (_hcN : a.ccNeg ≤ 119)
    (h : (if neg then a.cc else a.ccNeg) ∉ d.ccZeroed) :
    (if neg then ccMsg (chanOf d.channel a.chOff) a.cc 0 else ccMsg (chanOf d.channel a.chOffNeg) a.ccNeg 0)
      ∈ (d.bidirCC a neg adj).2 :=
  explicit_zero_core a d neg adj h

/-- after an event on one side, that side's controller is marked not-zeroed (so the next event on the other side
    sends the explicit 0) -/
theorem C07_marks (a : Analog) (d : Dev) (neg : Bool) (adj : Rat) :
    (if neg then a.ccNeg else a.cc) ∉ (d.bidirCC a neg adj).1.ccZeroed := by
  cases neg
  · simp only [Bool.false_eq_true, if_false]
    rw [bidirCC_pos]
    split <;> (rw [setZeroed_false, mem_serase]; exact fun hm => hm.2 rfl)
  · simp only [if_true]
    rw [bidirCC_neg]
    split <;> (rw [setZeroed_false, mem_serase]; exact fun hm => hm.2 rfl)

/-- the two-event reading of "crossing": an event on one side followed by an event on the other side
    (whatever the values) contains the explicit 0 for the side that was left -/
theorem C07_crossing (a : Analog) (d : Dev) (neg : Bool) (adj adj' : Rat) :
    (if neg then ccMsg (chanOf d.channel a.chOff) a.cc 0 else ccMsg (chanOf d.channel a.chOffNeg) a.ccNeg 0)
      ∈ ((d.bidirCC a (!neg) adj).1.bidirCC a neg adj').2 := by
  have hm := C07_marks a d (!neg) adj
  have hc : (d.bidirCC a (!neg) adj).1.channel = d.channel := bidirCC_channel d a (!neg) adj
  have hx := explicit_zero_core a (d.bidirCC a (!neg) adj).1 neg adj'
  rw [hc] at hx
  apply hx
  cases neg <;> simpa using hm

/-- one step of the receiver-coupled run used in `C07_sequence` -/
def seqStep (a : Analog) (s : Dev × List ((Nat × Nat) × Nat)) (e : Bool × Rat) : Dev × List ((Nat × Nat) × Nat) :=
  let r := s.1.bidirCC a e.1 e.2; (r.1, r.2.foldl recvCC s.2)

theorem seq_inv (a : Analog) (hd : a.cc ≠ a.ccNeg) (ch0 : Nat) (evs : List (Bool × Rat))
    (s : Dev × List ((Nat × Nat) × Nat)) (hc : s.1.channel = ch0)
    (hinv : SideInv a (chanOf ch0 a.chOff) (chanOf ch0 a.chOffNeg) s.1 s.2) :
    (evs.foldl (seqStep a) s).1.channel = ch0 ∧
    SideInv a (chanOf ch0 a.chOff) (chanOf ch0 a.chOffNeg) (evs.foldl (seqStep a) s).1 (evs.foldl (seqStep a) s).2 := by
  induction evs generalizing s with
  | nil => exact ⟨hc, hinv⟩
  | cons e es ih =>
    rw [List.foldl_cons]
    subst hc
    apply ih
    · exact bidirCC_channel s.1 a e.1 e.2
    · exact (step_core a s.1 s.2 e.1 e.2 hd hinv).1

/-- any sequence of transmitted events (sides and values arbitrary) keeps "at most one side non-zero" -/
theorem C07_sequence (a : Analog) (cfg : Config)
    (hd : a.cc ≠ a.ccNeg) (_hch : (Dev.init cfg).channel < 16) (_hoP : a.chOff ≤ 15) (_hoN : a.chOffNeg ≤ 15)
    (_hcP : a.cc ≤ 119) (_hcN : a.ccNeg ≤ 119) (evs : List (Bool × Rat)) :
    let fin := evs.foldl (fun (s : Dev × List ((Nat × Nat) × Nat)) e =>
      let r := s.1.bidirCC a e.1 e.2; (r.1, r.2.foldl recvCC s.2)) (Dev.init cfg, [])
    ccOf fin.2 (chanOf (Dev.init cfg).channel a.chOff, a.cc) = 0 ∨
    ccOf fin.2 (chanOf (Dev.init cfg).channel a.chOffNeg, a.ccNeg) = 0 := by
  intro fin
  exact (seq_inv a hd (Dev.init cfg).channel evs (Dev.init cfg, []) rfl (C07_init a _ _ cfg)).2.2.2

/-- the same from any state in which the invariant holds (not only the initial one) -/
theorem C07_sequence_from (a : Analog) (d : Dev) (R : List ((Nat × Nat) × Nat)) (hd : a.cc ≠ a.ccNeg)
    (hinv : SideInv a (chanOf d.channel a.chOff) (chanOf d.channel a.chOffNeg) d R) (evs : List (Bool × Rat)) :
    let fin := evs.foldl (fun (s : Dev × List ((Nat × Nat) × Nat)) e =>
      let r := s.1.bidirCC a e.1 e.2; (r.1, r.2.foldl recvCC s.2)) (d, R)
    ccOf fin.2 (chanOf d.channel a.chOff, a.cc) = 0 ∨ ccOf fin.2 (chanOf d.channel a.chOffNeg, a.ccNeg) = 0 := by
  intro fin
  exact (seq_inv a hd d.channel evs (d, R) rfl hinv).2.2.2

/-! ### the CC-learning gate -/

theorem releaseAxis_cfg (d : Dev) (code : Code) : (d.releaseAxis code).1.cfg = d.cfg := by
  rw [releaseAxis_frame]
theorem releaseAxis_lastAna (d : Dev) (code : Code) : (d.releaseAxis code).1.lastAna = d.lastAna := by
  rw [releaseAxis_frame]
theorem releaseAxis_learning (d : Dev) (code : Code) : (d.releaseAxis code).1.learning = d.learning := by
  rw [releaseAxis_frame]

/-- CC-learning gate: while learning is held, `Dev.handleAbs` transmits nothing for a new position `v` with
    `|v| ≤ 1/2` (the shaped, flipped value as the device computes it) — whatever the kind of the axis entry.
    The only output is the release of what the key emulation of this axis still held (entries that are not `key`). -/
theorem C07_learning_gate (d : Dev) (sub : Sub) (node : String) (code : Code) (raw : Int)
    (m : Mapping) (a : Analog) (dz : Rat)
    (hm : d.curMap = some m) (ha : alookup (sub, code) m.analog = some a)
    (hdz : m.deadzone sub code = some dz) (hl : d.learning = true)
    (hnew : (alookup (sub, code) d.lastAna).getD 0 ≠
      shapeRaw ((alookup (node, code) d.cfg.axes).getD (0, 0)).1 ((alookup (node, code) d.cfg.axes).getD (0, 0)).2
        a.dzCenter dz raw)
    (hv : ¬ (flipVal (decide (((alookup (node, code) d.cfg.axes).getD (0, 0)).1 < 0) || a.dzCenter) a.flip
              (shapeRaw ((alookup (node, code) d.cfg.axes).getD (0, 0)).1 ((alookup (node, code) d.cfg.axes).getD (0, 0)).2
                a.dzCenter dz raw) < -1/2 ∨
            1/2 < flipVal (decide (((alookup (node, code) d.cfg.axes).getD (0, 0)).1 < 0) || a.dzCenter) a.flip
              (shapeRaw ((alookup (node, code) d.cfg.axes).getD (0, 0)).1 ((alookup (node, code) d.cfg.axes).getD (0, 0)).2
                a.dzCenter dz raw))) :
    (d.handleAbs sub node code raw).2 = (if a.kind = .key then [] else (d.releaseAxis code).2) := by
  unfold Dev.handleAbs
  simp only [hm, ha, hdz]
  by_cases hk : a.kind = .key
  · simp only [hk, if_true]
    rw [if_neg hnew]
    simp only [hl, true_and]
    rw [if_pos hv]
  · simp only [hk, if_false, releaseAxis_cfg, releaseAxis_lastAna, releaseAxis_learning]
    rw [if_neg hnew]
    simp only [hl, true_and]
    rw [if_pos hv]

/-- consequently the gated event contains no controller or pitch-bend message at all: every message in it is the
    Note Off of a note the key emulation of this axis still held -/
theorem C07_learning_gate_only_releases (d : Dev) (sub : Sub) (node : String) (code : Code) (raw : Int)
    (m : Mapping) (a : Analog) (dz : Rat)
    (hm : d.curMap = some m) (ha : alookup (sub, code) m.analog = some a)
    (hdz : m.deadzone sub code = some dz) (hl : d.learning = true)
    (hnew : (alookup (sub, code) d.lastAna).getD 0 ≠
      shapeRaw ((alookup (node, code) d.cfg.axes).getD (0, 0)).1 ((alookup (node, code) d.cfg.axes).getD (0, 0)).2
        a.dzCenter dz raw)
    (hv : ¬ (flipVal (decide (((alookup (node, code) d.cfg.axes).getD (0, 0)).1 < 0) || a.dzCenter) a.flip
              (shapeRaw ((alookup (node, code) d.cfg.axes).getD (0, 0)).1 ((alookup (node, code) d.cfg.axes).getD (0, 0)).2
                a.dzCenter dz raw) < -1/2 ∨
            1/2 < flipVal (decide (((alookup (node, code) d.cfg.axes).getD (0, 0)).1 < 0) || a.dzCenter) a.flip
              (shapeRaw ((alookup (node, code) d.cfg.axes).getD (0, 0)).1 ((alookup (node, code) d.cfg.axes).getD (0, 0)).2
                a.dzCenter dz raw))) :
    ∀ o ∈ (d.handleAbs sub node code raw).2, ∃ id ∈ [((code, false) : Code × Bool), (code, true)], ∃ n ch,
      alookup id d.anaTr = some (n, ch) ∧ o = noteEvent stNoteOff ch n 0 := by
  intro o ho
  rw [C07_learning_gate d sub node code raw m a dz hm ha hdz hl hnew hv] at ho
  split at ho
  · simp at ho
  · exact releaseAxis_out_mem d code o ho

/-- and with nothing held by the key emulation of this axis the gated event is empty -/
theorem C07_learning_gate_silent (d : Dev) (sub : Sub) (node : String) (code : Code) (raw : Int)
    (m : Mapping) (a : Analog) (dz : Rat)
    (hm : d.curMap = some m) (ha : alookup (sub, code) m.analog = some a)
    (hdz : m.deadzone sub code = some dz) (hl : d.learning = true)
    (hnew : (alookup (sub, code) d.lastAna).getD 0 ≠
      shapeRaw ((alookup (node, code) d.cfg.axes).getD (0, 0)).1 ((alookup (node, code) d.cfg.axes).getD (0, 0)).2
        a.dzCenter dz raw)
    (hv : ¬ (flipVal (decide (((alookup (node, code) d.cfg.axes).getD (0, 0)).1 < 0) || a.dzCenter) a.flip
              (shapeRaw ((alookup (node, code) d.cfg.axes).getD (0, 0)).1 ((alookup (node, code) d.cfg.axes).getD (0, 0)).2
                a.dzCenter dz raw) < -1/2 ∨
            1/2 < flipVal (decide (((alookup (node, code) d.cfg.axes).getD (0, 0)).1 < 0) || a.dzCenter) a.flip
              (shapeRaw ((alookup (node, code) d.cfg.axes).getD (0, 0)).1 ((alookup (node, code) d.cfg.axes).getD (0, 0)).2
                a.dzCenter dz raw)))
    (hp : alookup (code, false) d.anaTr = none) (hq : alookup (code, true) d.anaTr = none) :
    (d.handleAbs sub node code raw).2 = [] := by
  rw [C07_learning_gate d sub node code raw m a dz hm ha hdz hl hnew hv]
  split
  · rfl
  · rw [releaseAxis_out, hp, hq]; rfl

/-! ### where `bidirCC` is called from -/

/-- for a bidirectional entry `absCC` is `bidirCC`: the side is "below rest" (0 for an axis that can go negative,
    1/2 otherwise) and the value is the distance from rest -/
theorem absCC_bidir (d : Dev) (a : Analog) (canNeg : Bool) (v : Rat) (hb : a.bidir = true) :
    d.absCC a canNeg v =
      d.bidirCC a (if canNeg then decide (v < 0) else decide (v < 1/2))
        (if canNeg then rabs v else rabs (fsub (fmul v 2) 1)) := by
  unfold Dev.absCC
  cases canNeg <;> simp [hb]

/-! ### non-vacuity -/

private def cfg0 : Config :=
  { maps := [], actions := [], exitSeq := [], mode := .off, defOct := 0, defSemi := 0, defCh := 1,
    defMap := 0, vel := 64, axes := [] }
private def a0 : Analog :=
  { kind := .cc, cc := 1, ccNeg := 2, note := 0, noteNeg := 0, chOff := 0, chOffNeg := 3,
    act := .none, actNeg := .none, flip := false, bidir := true, dzCenter := false }

/-- full positive deflection, then half negative deflection: the second event carries the value for the negative
    controller and the explicit 0 for the positive one (evaluated in the kernel, no `native_decide`) -/
example :
    ((Dev.init cfg0).bidirCC a0 false 1).2 = [ccMsg 0 1 127, ccMsg 3 2 0] ∧
    (((Dev.init cfg0).bidirCC a0 false 1).1.bidirCC a0 true (1/2)).2 = [ccMsg 3 2 63, ccMsg 0 1 0] ∧
    (((Dev.init cfg0).bidirCC a0 false 1).1.bidirCC a0 true (1/2)).1.ccZeroed = [1] := by
  decide +kernel

end Hidi.Props.C07
