/-
  C05 on the regenerated message constructors: `Hidi/Gen/MidiEv.lean` is the translation of `NoteEvent`,
  `ControlChangeEvent` and `PitchBendEvent` (internal/pkg/midi/event.go) made by tools/extract/midiev.go on every run —
  the order of the three bytes, the `|` of status and channel, the 14-bit scaling `int(math.Round(16383·((val+1)/2)))`,
  the shifts and masks are translated (`uint8` = `Nat` below 256, `int` = `Int`, `float64` = the softfloat of
  `Hidi/Float.lean`).  Each equals, byte for byte, the constructor of the hand-written model (`Hidi.noteEvent`, `ccEvent`,
  `pitchBendEvent`), which the engine model, the regenerated method bodies (`GoLite.noteEv`, `ccEv`, `pbEv`) and every C05
  theorem are stated on — so those constructors are no longer a modelled primitive but a checked translation.
-/
import Hidi.Gen.MidiEv
import Hidi.Gen.Tables
import HidiProofs.Props.C05full
namespace Hidi.Props.C05
open Hidi Hidi.Spec Hidi.Gen

/-- the bytes of a message of the model -/
def bytes : Out → List Nat
  | .midi a b c => [a, b, c]
  | _ => []

theorem C05_gen_ctors_translated : MidiEv.midiCtorsTranslated = true := by decide

theorem or_byte {a b : Nat} (ha : a < 256) (hb : b < 256) : (a ||| b) % 256 = a ||| b :=
  Nat.mod_eq_of_lt (Nat.or_lt_two_pow (n := 8) ha hb)

/-- `NoteEvent(messageType, channel, note, velocity)` as written now = the model's constructor, for all bytes -/
theorem C05_gen_noteEvent (ty ch note vel : Nat) (hty : ty < 256) (hch : ch < 256) :
    MidiEv.NoteEvent ty ch note vel = bytes (noteEvent ty ch note vel) := by
  simp only [MidiEv.NoteEvent, noteEvent, bytes, or_byte hty hch]

/-- `ControlChangeEvent(channel, function, value)` as written now = the model's constructor -/
theorem C05_gen_ccEvent (ch fn v : Nat) (hch : ch < 256) :
    MidiEv.ControlChangeEvent ch fn v = bytes (ccEvent ch fn v) := by
  have h : (176 ||| ch) % 256 = 176 ||| ch := or_byte (by omega) hch
  simp only [MidiEv.ControlChangeEvent, ccEvent, bytes, stCC, h]

/-- `PitchBendEvent(channel, val)` as written now = the model's constructor, for every binary64 value `val` -/
theorem C05_gen_pitchBendEvent (ch : Nat) (val : Rat) (hch : ch < 256) :
    MidiEv.PitchBendEvent ch val = bytes (pitchBendEvent ch val) := by
  have h : (224 ||| ch) % 256 = 224 ||| ch := or_byte (by omega) hch
  simp only [MidiEv.PitchBendEvent, pitchBendEvent, bytes, stPB, h, u8]
  generalize fround (fmul 16383 (fdiv (fadd val 1) 2)) = t
  have e1 : (t / 128 % 128 % 256).toNat = (t / 128 % 128).toNat := by congr 1; omega
  have e2 : (t % 128 % 256).toNat = (t % 128).toNat := by congr 1; omega
  rw [e1, e2]

/-- the status constants the constructors are called with are the regenerated ones -/
theorem C05_gen_status_consts :
    Gen.midi_NoteOn = stNoteOn ∧ Gen.midi_NoteOff = stNoteOff ∧ Gen.midi_ControlChange = stCC ∧
      Gen.midi_PitchWheelChange = stPB := by decide

/-- C05 stated on the constructors as written now: on a channel 0‥15 with data bytes in range, what they build is a
    complete three-byte channel message of the right kind -/
theorem C05_gen_note_wellformed (ch note vel : Nat) (hch : ch < 16) (hn : note ≤ 127) (hv : vel ≤ 127) :
    MidiEv.NoteEvent Gen.midi_NoteOn ch note vel = [0x90 + ch, note, vel] ∧
      MidiEv.NoteEvent Gen.midi_NoteOff ch note 0 = [0x80 + ch, note, 0] := by
  have h1 := st_on ch hch
  have h2 := st_off ch hch
  have b1 : (0x90 ||| ch) % 256 = 0x90 ||| ch := or_byte (by omega) (by omega)
  have b2 : (0x80 ||| ch) % 256 = 0x80 ||| ch := or_byte (by omega) (by omega)
  simp only [MidiEv.NoteEvent, Gen.midi_NoteOn, Gen.midi_NoteOff]
  rw [← b1, ← b2, h1, h2]; exact ⟨rfl, rfl⟩

theorem C05_gen_cc_wellformed (ch fn v : Nat) (hch : ch < 16) :
    MidiEv.ControlChangeEvent ch fn v = [0xB0 + ch, fn, v] := by
  have h1 := st_cc ch hch
  have b1 : (0xB0 ||| ch) % 256 = 0xB0 ||| ch := or_byte (by omega) (by omega)
  simp only [MidiEv.ControlChangeEvent]
  rw [← b1, h1]

/-- every pitch-bend message as built now has its two data bytes below 128, whatever the value -/
theorem C05_gen_pb_wellformed (ch : Nat) (val : Rat) (hch : ch < 16) :
    ∃ lsb msb, MidiEv.PitchBendEvent ch val = [0xE0 + ch, lsb, msb] ∧ lsb < 128 ∧ msb < 128 := by
  have hw := wf_pb hch val
  have he := C05_gen_pitchBendEvent ch val (by omega)
  unfold pitchBendEvent at hw he
  simp only [] at hw he
  rw [wf_midi_iff] at hw
  refine ⟨_, _, ?_, hw.2.2.1, hw.2.2.2⟩
  rw [he, bytes, stPB, st_pb ch hch]

end Hidi.Props.C05
