import Hidi
namespace Hidi.Props.C10
open Hidi

/-- placeholder obligation replaced by the real theorems below as they are proved -/
theorem init_not_dead (cfg : Config) : (Dev.init cfg).dead = false := rfl

end Hidi.Props.C10
