/-
  C10 — Accepted configurations say what the file says; invalid values are rejected.
  Theorems about `Hidi.convert` (the model of the post-decode half of `ParseData`), for every decoded structure.

  * `C10_in_range`        : every accepted configuration satisfies `Accepted` — notes ≤ 127, controllers ≤ 119, channel
                            offsets ≤ 15 in every mapping, default mapping index inside the list, default channel 1–16,
                            velocity 1–127.  (This is the hypothesis the engine theorems C01–C05, C13, C14 start from.)
  * `C10_scalars`         : collision mode, exit sequence, identifier, defaults (velocity 0 meaning 64) and the colour split
                            are exactly what the structure says;
  * `C10_key_number` / `C10_key_name` / `C10_key_rejects` : what a key entry means and when it is rejected;
  * `C10_rejects_*`       : unsupported collision mode, default channel outside 1–16, velocity outside 0–127, a default
                            mapping that does not exist, an unknown key name / bad value anywhere in a table: error;
  * `C10_table_values`    : everything bound in a converted table is the conversion of an entry of the file.
  Unknown *fields* are rejected by the decoder (`DisallowUnknownFields`), which is outside the model: covered by the
  differential run.
-/
import HidiProofs.EngineSimBase
import HidiProofs.Props.C09
import HidiProofs.Props.C11
import Hidi.Parser
import Hidi.Spec
namespace Hidi.Props.C10
open Hidi Hidi.Spec Hidi.EngineSim

/-! ### single entries -/

theorem convKey_ok {v : String} {k : Key} (h : convKey v = .ok k) : keyOk k = true := by
  unfold convKey at h
  simp only [] at h
  split at h
  · cases h
  · split at h
    · cases h
    · split at h
      · cases h
      · split at h
        · split at h
          · cases h
          · simp only [Outcome.ok.injEq] at h; subst h
            simp only [keyOk, Bool.and_eq_true, decide_eq_true_eq, Bool.decide_and]; omega
        · split at h
          · rename_i n hn
            simp only [Outcome.ok.injEq] at h; subst h
            have := (C11.C11_only_names _ _ hn).1
            simp only [keyOk, Bool.and_eq_true, decide_eq_true_eq, Bool.decide_and]; omega
          · cases h

theorem inRange_iff {lo hi x : Int} : inRange lo hi x = true ↔ lo ≤ x ∧ x ≤ hi := by
  simp [inRange]

theorem convAnalog_ok {a : TAnalog} {x : Analog} (h : convAnalog a = .ok x) : analogOk x = true := by
  unfold convAnalog at h
  simp only [] at h
  split at h
  · cases h
  · split at h
    · cases h
    · rename_i hoff
      have hoff' : (0 ≤ a.chOff ∧ a.chOff ≤ 15) ∧ (0 ≤ a.chOffNeg ∧ a.chOffNeg ≤ 15) := by
        simp only [inRange, Bool.decide_and, Bool.and_eq_true, decide_eq_true_eq, not_or, Decidable.not_not] at hoff
        exact ⟨hoff.1, hoff.2⟩
      split at h
      all_goals (repeat' split at h)
      all_goals first
        | (simp only [Outcome.ok.injEq] at h; subst h
           simp only [Decidable.not_not, inRange_iff] at *
           simp only [analogOk, Bool.and_eq_true, decide_eq_true_eq, Bool.decide_and]
           omega)
        | cases h

/-! ### tables -/

/-- everything bound in a converted table is the conversion of some entry of the file -/
theorem C10_table_values {α β} (table : List (String × Nat)) (f : α → Outcome β) :
    ∀ (l : List (String × α)) (r : List (Nat × β)), convTable table f l = .ok r →
      ∀ p ∈ r, ∃ k v, (k, v) ∈ l ∧ keyToEvCode k table = some p.1 ∧ f v = .ok p.2 := by
  intro l
  induction l with
  | nil => intro r h p hp; simp only [convTable, Outcome.ok.injEq] at h; subst h; cases hp
  | cons e rest ih =>
    intro r h p hp
    obtain ⟨k, v⟩ := e
    simp only [convTable] at h
    split at h
    · cases h
    · rename_i code hcode
      split at h
      · rename_i b hb
        split at h
        · rename_i l' hl'
          simp only [Outcome.ok.injEq] at h; subst h
          rcases mem_ainsert.mp hp with h1 | h1
          · obtain ⟨k', v', hm, h2, h3⟩ := ih l' hl' p h1.1
            exact ⟨k', v', List.mem_cons_of_mem _ hm, h2, h3⟩
          · subst h1
            exact ⟨k, v, List.mem_cons_self, hcode, hb⟩
        · cases h
        · cases h
      · cases h
      · cases h

/-- **nothing of the file is dropped, nothing is invented**: an accepted table binds exactly the codes named in the file,
    each once; and an entry whose code no other entry of the table names is bound to the conversion of its own value -/
theorem C10_table_complete {α β} (table : List (String × Nat)) (f : α → Outcome β) :
    ∀ (l : List (String × α)) (r : List (Nat × β)), convTable table f l = .ok r →
      (akeys r).Nodup ∧
      (∀ c, c ∈ akeys r ↔ ∃ e ∈ l, keyToEvCode e.1 table = some c) ∧
      (∀ e ∈ l, ∀ c, keyToEvCode e.1 table = some c →
        (∀ e' ∈ l, keyToEvCode e'.1 table = some c → e' = e) → ∃ b, f e.2 = .ok b ∧ alookup c r = some b) := by
  intro l
  induction l with
  | nil =>
    intro r h
    simp only [convTable, Outcome.ok.injEq] at h; subst h
    exact ⟨by simp [akeys], by intro c; simp [akeys], by intro e he; cases he⟩
  | cons e rest ih =>
    intro r h
    obtain ⟨k, v⟩ := e
    simp only [convTable] at h
    split at h
    · cases h
    · rename_i code hcode
      split at h
      · rename_i b hb
        split at h
        · rename_i l' hl'
          simp only [Outcome.ok.injEq] at h; subst h
          obtain ⟨i1, i2, i3⟩ := ih l' hl'
          refine ⟨nodup_akeys_ainsert i1, ?_, ?_⟩
          · intro c
            rw [mem_akeys_ainsert, i2 c]
            constructor
            · rintro (⟨e, he, hc⟩ | rfl)
              · exact ⟨e, List.mem_cons_of_mem _ he, hc⟩
              · exact ⟨(k, v), List.mem_cons_self, hcode⟩
            · rintro ⟨e, he, hc⟩
              rcases List.mem_cons.mp he with rfl | he
              · right
                simp only at hc
                rw [hcode] at hc
                simpa using hc.symm
              · exact Or.inl ⟨e, he, hc⟩
          · intro e he c hc huniq
            rcases List.mem_cons.mp he with rfl | he'
            · simp only at hc
              rw [hcode] at hc
              simp only [Option.some.injEq] at hc; subst hc
              exact ⟨b, hb, alookup_ainsert_self⟩
            · by_cases hcc : c = code
              · -- the head entry names the same code, so by uniqueness it is `e` itself (the same line twice)
                subst hcc
                have := huniq (k, v) List.mem_cons_self hcode
                subst this
                exact ⟨b, hb, alookup_ainsert_self⟩
              · obtain ⟨b', hb', hl⟩ := i3 e he' c hc (fun e' he'' hc' => huniq e' (List.mem_cons_of_mem _ he'') hc')
                exact ⟨b', hb', by rw [alookup_ainsert_ne hcc]; exact hl⟩
        · cases h
        · cases h
      · cases h
      · cases h

/-! ### the key tables of a mapping, sub-handler by sub-handler -/

/-- what one non-empty sub-handler table does to the mapping under construction -/
def keysStep (acc : List ((Sub × Code) × Key)) (sub : Sub) (tmp : List (Nat × Key)) : List ((Sub × Code) × Key) :=
  if tmp.isEmpty then acc else (acc.filter (fun p => p.1.1 ≠ sub)) ++ tmp.map (fun p => ((sub, p.1), p.2))

theorem convKeysSubs_cons (k : TKeys) (r : List TKeys) (acc : List ((Sub × Code) × Key)) :
    convKeysSubs (k :: r) acc =
      match convTable Gen.kEYFromString convKey k.map with
      | .ok tmp => convKeysSubs r (keysStep acc k.sub tmp)
      | .err => .err
      | .panic => .panic := by
  simp only [convKeysSubs, keysStep]
  cases convTable Gen.kEYFromString convKey k.map <;> rfl

theorem alookup_filter_sub {β : Type} (acc : List ((Sub × Code) × β)) (sub s : Sub) (c : Code) :
    alookup (s, c) (acc.filter (fun p => p.1.1 ≠ sub)) = if s = sub then none else alookup (s, c) acc := by
  induction acc with
  | nil => simp [alookup]
  | cons p r ih =>
    obtain ⟨⟨s', c'⟩, v⟩ := p
    simp only [List.filter_cons]
    by_cases h1 : s' = sub
    · subst h1
      simp only [ne_eq, not_true_eq_false, decide_false, Bool.false_eq_true, if_false, ih]
      by_cases h2 : s = s'
      · simp [h2]
      · have : ¬ ((s', c') = (s, c)) := by intro e; cases e; exact h2 rfl
        simp [alookup, h2, this]
    · simp only [ne_eq, h1, not_false_eq_true, decide_true, if_true]
      unfold alookup
      by_cases h3 : (s', c') = (s, c)
      · cases h3; simp [h1]
      · simp only [h3, if_false]; exact ih

theorem alookup_map_sub {β : Type} (tmp : List (Nat × β)) (sub s : Sub) (c : Code) :
    alookup (s, c) (tmp.map (fun p => ((sub, p.1), p.2))) = if s = sub then alookup c tmp else none := by
  induction tmp with
  | nil => simp [alookup]
  | cons p r ih =>
    obtain ⟨c', v⟩ := p
    simp only [List.map_cons]
    unfold alookup
    by_cases h1 : s = sub
    · subst h1
      by_cases h2 : c' = c
      · subst h2; simp
      · have : ¬ ((s, c') = (s, c)) := by intro e; cases e; exact h2 rfl
        simp only [this, h2, if_false, if_true]
        rw [ih]; simp
    · have : ¬ ((sub, c') = (s, c)) := by intro e; cases e; exact h1 rfl
      simp only [this, if_false, h1]
      rw [ih]; simp [h1]

theorem lookup_keysStep (acc : List ((Sub × Code) × Key)) (sub : Sub) (tmp : List (Nat × Key)) (s : Sub) (c : Code) :
    alookup (s, c) (keysStep acc sub tmp) =
      if tmp.isEmpty then alookup (s, c) acc else if s = sub then alookup c tmp else alookup (s, c) acc := by
  unfold keysStep
  by_cases he : tmp.isEmpty = true
  · simp [he]
  · simp only [he, if_false, Bool.false_eq_true]
    rw [alookup_append, alookup_filter_sub, alookup_map_sub]
    by_cases h1 : s = sub
    · simp [h1]
    · simp only [h1, if_false]
      cases alookup (s, c) acc <;> rfl

/-- all key tables of a mapping whose sub-handler names are pairwise distinct: each non-empty table ends up under its
    sub-handler exactly as converted, and nothing else is added -/
theorem convKeysSubs_spec : ∀ (ks : List TKeys) (acc midi : List ((Sub × Code) × Key)),
    (ks.map (·.sub)).Nodup → convKeysSubs ks acc = .ok midi →
      (∀ s c, s ∉ ks.map (·.sub) → alookup (s, c) midi = alookup (s, c) acc) ∧
      (∀ k ∈ ks, ∃ tmp, convTable Gen.kEYFromString convKey k.map = .ok tmp ∧
        (tmp.isEmpty = false → ∀ c, alookup (k.sub, c) midi = alookup c tmp) ∧
        (tmp.isEmpty = true → ∀ c, alookup (k.sub, c) midi = alookup (k.sub, c) acc)) := by
  intro ks
  induction ks with
  | nil =>
    intro acc midi _ h
    simp only [convKeysSubs, Outcome.ok.injEq] at h; subst h
    exact ⟨fun _ _ _ => rfl, by intro k hk; cases hk⟩
  | cons k r ih =>
    intro acc midi hnd h
    rw [convKeysSubs_cons] at h
    simp only [List.map_cons, List.nodup_cons] at hnd
    split at h
    · rename_i tmp htmp
      obtain ⟨i1, i2⟩ := ih _ _ hnd.2 h
      constructor
      · intro s c hs
        simp only [List.map_cons, List.mem_cons, not_or] at hs
        rw [i1 s c hs.2, lookup_keysStep]
        simp [hs.1]
      · intro k' hk'
        rcases List.mem_cons.mp hk' with rfl | hk'
        · refine ⟨tmp, htmp, ?_, ?_⟩
          · intro hne c
            rw [i1 k'.sub c hnd.1, lookup_keysStep]
            simp [hne]
          · intro he c
            rw [i1 k'.sub c hnd.1, lookup_keysStep]
            simp [he]
        · obtain ⟨tmp', h1, h2, h3⟩ := i2 k' hk'
          refine ⟨tmp', h1, h2, ?_⟩
          intro he c
          rw [h3 he c, lookup_keysStep]
          have hne : k'.sub ≠ k.sub := by
            intro e
            apply hnd.1
            rw [← e]
            exact List.mem_map.mpr ⟨k', hk', rfl⟩
          simp [hne]
    · cases h
    · cases h

/-- **every key line of the file is in the accepted mapping**: in a mapping whose key tables have pairwise distinct
    sub-handler names, a line `name = "note[,offset]"` of the table of sub-handler `sub`, whose key code no other line of
    that table names, is bound under `(sub, code)` to exactly the conversion of its value -/
theorem C10_mapping_keys_complete (ks : List TKeys) (midi : List ((Sub × Code) × Key))
    (hnd : (ks.map (·.sub)).Nodup) (h : convKeysSubs ks [] = .ok midi)
    (k : TKeys) (hk : k ∈ ks) (e : String × String) (he : e ∈ k.map) (c : Code)
    (hc : keyToEvCode e.1 Gen.kEYFromString = some c)
    (huniq : ∀ e' ∈ k.map, keyToEvCode e'.1 Gen.kEYFromString = some c → e' = e) :
    ∃ key, convKey e.2 = .ok key ∧ alookup (k.sub, c) midi = some key := by
  obtain ⟨-, i2⟩ := convKeysSubs_spec ks [] midi hnd h
  obtain ⟨tmp, htmp, hne, -⟩ := i2 k hk
  obtain ⟨-, t2, t3⟩ := C10_table_complete Gen.kEYFromString convKey k.map tmp htmp
  obtain ⟨key, hkey, hl⟩ := t3 e he c hc huniq
  have hnonempty : tmp.isEmpty = false := by
    cases tmp with
    | nil => simp [alookup] at hl
    | cons _ _ => rfl
  exact ⟨key, hkey, by rw [hne hnonempty c]; exact hl⟩

/-- **and nothing else**: a binding `(sub, code) ↦ key` of the accepted mapping comes from a line of the table of that
    sub-handler -/
theorem C10_mapping_keys_sound (ks : List TKeys) (midi : List ((Sub × Code) × Key))
    (hnd : (ks.map (·.sub)).Nodup) (h : convKeysSubs ks [] = .ok midi) (s : Sub) (c : Code) (key : Key)
    (hl : alookup (s, c) midi = some key) :
    ∃ k ∈ ks, k.sub = s ∧ ∃ e ∈ k.map, keyToEvCode e.1 Gen.kEYFromString = some c ∧ convKey e.2 = .ok key := by
  obtain ⟨i1, i2⟩ := convKeysSubs_spec ks [] midi hnd h
  by_cases hs : s ∈ ks.map (·.sub)
  · obtain ⟨k, hk, rfl⟩ := List.mem_map.mp hs
    obtain ⟨tmp, htmp, hne, hem⟩ := i2 k hk
    cases hte : tmp.isEmpty with
    | true => rw [hem hte c] at hl; simp [alookup] at hl
    | false =>
      rw [hne hte c] at hl
      have hm : (c, key) ∈ tmp := by
        clear hne hem htmp hte
        induction tmp with
        | nil => simp [alookup] at hl
        | cons p r ih =>
          obtain ⟨c', v⟩ := p
          unfold alookup at hl
          split at hl
          · rename_i e; subst e; simp only [Option.some.injEq] at hl; subst hl; exact List.mem_cons_self
          · exact List.mem_cons_of_mem _ (ih hl)
      obtain ⟨kk, v, hmem, h2, h3⟩ := C10_table_values Gen.kEYFromString convKey k.map tmp htmp (c, key) hm
      exact ⟨k, hk, rfl, (kk, v), hmem, h2, h3⟩
  · rw [i1 s c hs] at hl; simp [alookup] at hl

/-! ### the analog tables of a mapping -/

/-- replace everything recorded for sub-handler `sub` by the converted table -/
def subStep {β : Type} (acc : List ((Sub × Code) × β)) (sub : Sub) (tmp : List (Nat × β)) : List ((Sub × Code) × β) :=
  (acc.filter (fun p => p.1.1 ≠ sub)) ++ tmp.map (fun p => ((sub, p.1), p.2))

theorem lookup_subStep {β : Type} (acc : List ((Sub × Code) × β)) (sub : Sub) (tmp : List (Nat × β)) (s : Sub) (c : Code) :
    alookup (s, c) (subStep acc sub tmp) = if s = sub then alookup c tmp else alookup (s, c) acc := by
  unfold subStep
  rw [alookup_append, alookup_filter_sub, alookup_map_sub]
  by_cases h1 : s = sub
  · simp [h1]
  · simp only [h1, if_false]
    cases alookup (s, c) acc <;> rfl

theorem convAnalogSubs_cons (a : TAnalogSub) (r : List TAnalogSub) (acc : AnalogAcc) :
    convAnalogSubs (a :: r) acc =
      match convTable Gen.aBSFromString convAnalog a.map with
      | .ok tmp =>
        (match convTable Gen.aBSFromString (fun (z : Rat) => (Outcome.ok z : Outcome Rat)) a.dz with
         | .ok dzs => convAnalogSubs r
             { analog := subStep acc.analog a.sub tmp, dz := subStep acc.dz a.sub dzs, defDz := ainsert a.sub a.defDz acc.defDz }
         | .err => .err
         | .panic => .panic)
      | .err => .err
      | .panic => .panic := by
  simp only [convAnalogSubs, subStep]
  cases convTable Gen.aBSFromString convAnalog a.map with
  | ok tmp => simp only; cases convTable Gen.aBSFromString (fun (z : Rat) => (Outcome.ok z : Outcome Rat)) a.dz <;> rfl
  | err => rfl
  | panic => rfl

/-- the analog tables of a mapping with pairwise distinct sub-handler names: each sub-handler's axis table, deadzone table
    and default deadzone end up exactly as converted; nothing else is added -/
theorem convAnalogSubs_spec : ∀ (as : List TAnalogSub) (acc res : AnalogAcc),
    (as.map (·.sub)).Nodup → convAnalogSubs as acc = .ok res →
      (∀ s c, s ∉ as.map (·.sub) → alookup (s, c) res.analog = alookup (s, c) acc.analog ∧
        alookup (s, c) res.dz = alookup (s, c) acc.dz) ∧
      (∀ s, s ∉ as.map (·.sub) → alookup s res.defDz = alookup s acc.defDz) ∧
      (∀ a ∈ as, ∃ tmp dzs, convTable Gen.aBSFromString convAnalog a.map = .ok tmp ∧
        convTable Gen.aBSFromString (fun (z : Rat) => (Outcome.ok z : Outcome Rat)) a.dz = .ok dzs ∧
        (∀ c, alookup (a.sub, c) res.analog = alookup c tmp) ∧ (∀ c, alookup (a.sub, c) res.dz = alookup c dzs) ∧
        alookup a.sub res.defDz = some a.defDz) := by
  intro as
  induction as with
  | nil =>
    intro acc res _ h
    simp only [convAnalogSubs, Outcome.ok.injEq] at h; subst h
    exact ⟨fun _ _ _ => ⟨rfl, rfl⟩, fun _ _ => rfl, by intro a ha; cases ha⟩
  | cons a r ih =>
    intro acc res hnd h
    rw [convAnalogSubs_cons] at h
    simp only [List.map_cons, List.nodup_cons] at hnd
    split at h
    · rename_i tmp htmp
      split at h
      · rename_i dzs hdzs
        obtain ⟨i1, i2, i3⟩ := ih _ _ hnd.2 h
        refine ⟨?_, ?_, ?_⟩
        · intro s c hs
          simp only [List.map_cons, List.mem_cons, not_or] at hs
          obtain ⟨j1, j2⟩ := i1 s c hs.2
          simp only at j1 j2
          rw [j1, j2, lookup_subStep, lookup_subStep]
          simp [hs.1]
        · intro s hs
          simp only [List.map_cons, List.mem_cons, not_or] at hs
          rw [i2 s hs.2]
          simp only
          rw [alookup_ainsert_ne hs.1]
        · intro a' ha'
          rcases List.mem_cons.mp ha' with rfl | ha'
          · refine ⟨tmp, dzs, htmp, hdzs, ?_, ?_, ?_⟩
            · intro c
              rw [(i1 a'.sub c hnd.1).1]; simp only
              rw [lookup_subStep]; simp
            · intro c
              rw [(i1 a'.sub c hnd.1).2]; simp only
              rw [lookup_subStep]; simp
            · rw [i2 a'.sub hnd.1]; simp only
              exact alookup_ainsert_self
          · exact i3 a' ha'
      · cases h
      · cases h
    · cases h
    · cases h

/-- **every axis line of the file is in the accepted mapping** (axis tables with pairwise distinct sub-handler names): an
    axis named once in its table is bound under `(sub, code)` to the conversion of its own inline table; the deadzone
    entries and the per-sub-handler default deadzone likewise -/
theorem C10_mapping_axes_complete (as : List TAnalogSub) (res : AnalogAcc)
    (hnd : (as.map (·.sub)).Nodup) (h : convAnalogSubs as {} = .ok res) (a : TAnalogSub) (ha : a ∈ as) :
    (∀ e ∈ a.map, ∀ c, keyToEvCode e.1 Gen.aBSFromString = some c →
      (∀ e' ∈ a.map, keyToEvCode e'.1 Gen.aBSFromString = some c → e' = e) →
      ∃ x, convAnalog e.2 = .ok x ∧ alookup (a.sub, c) res.analog = some x) ∧
    (∀ e ∈ a.dz, ∀ c, keyToEvCode e.1 Gen.aBSFromString = some c →
      (∀ e' ∈ a.dz, keyToEvCode e'.1 Gen.aBSFromString = some c → e' = e) → alookup (a.sub, c) res.dz = some e.2) ∧
    alookup a.sub res.defDz = some a.defDz := by
  obtain ⟨-, -, i3⟩ := convAnalogSubs_spec as {} res hnd h
  obtain ⟨tmp, dzs, htmp, hdzs, l1, l2, l3⟩ := i3 a ha
  refine ⟨?_, ?_, l3⟩
  · intro e he c hc hu
    obtain ⟨-, -, t3⟩ := C10_table_complete Gen.aBSFromString convAnalog a.map tmp htmp
    obtain ⟨x, hx, hl⟩ := t3 e he c hc hu
    exact ⟨x, hx, by rw [l1 c]; exact hl⟩
  · intro e he c hc hu
    obtain ⟨-, -, t3⟩ := C10_table_complete Gen.aBSFromString (fun (z : Rat) => (Outcome.ok z : Outcome Rat)) a.dz dzs hdzs
    obtain ⟨x, hx, hl⟩ := t3 e he c hc hu
    simp only [Outcome.ok.injEq] at hx; subst hx
    rw [l2 c]; exact hl

/-- a table with a key name that is not known, or a value the entry conversion rejects, is rejected as a whole -/
theorem C10_table_rejects {α β} (table : List (String × Nat)) (f : α → Outcome β) (hf : ∀ a, f a ≠ .panic)
    (l : List (String × α)) (hbad : ∃ e ∈ l, keyToEvCode e.1 table = none ∨ f e.2 = .err) :
    convTable table f l = .err := by
  induction l with
  | nil => obtain ⟨e, he, -⟩ := hbad; cases he
  | cons e rest ih =>
    obtain ⟨k, v⟩ := e
    simp only [convTable]
    split
    · rfl
    · rename_i code hcode
      split
      · rename_i b hb
        have hrest : ∃ e ∈ rest, keyToEvCode e.1 table = none ∨ f e.2 = .err := by
          obtain ⟨e, he, hor⟩ := hbad
          rcases List.mem_cons.mp he with h1 | h1
          · subst h1
            rcases hor with h2 | h2
            · simp only at h2; rw [hcode] at h2; cases h2
            · simp only at h2; rw [hb] at h2; cases h2
          · exact ⟨e, h1, hor⟩
        rw [ih hrest]
      · rfl
      · rename_i hp; exact absurd hp (hf v)

theorem convKeysSubs_ok (l : List TKeys) : ∀ (acc r : List ((Sub × Code) × Key)),
    (∀ p ∈ acc, keyOk p.2 = true) → convKeysSubs l acc = .ok r → ∀ p ∈ r, keyOk p.2 = true := by
  induction l with
  | nil => intro acc r ha h; simp only [convKeysSubs, Outcome.ok.injEq] at h; subst h; exact ha
  | cons k rest ih =>
    intro acc r ha h
    simp only [convKeysSubs] at h
    split at h
    · rename_i tmp htmp
      refine ih _ r ?_ h
      intro p hp
      split at hp
      · exact ha p hp
      · rcases List.mem_append.mp hp with h1 | h1
        · exact ha p (List.mem_filter.mp h1).1
        · obtain ⟨q, hq, rfl⟩ := List.mem_map.mp h1
          obtain ⟨k', v', -, -, h3⟩ := C10_table_values _ _ _ _ htmp q hq
          exact convKey_ok h3
    · cases h
    · cases h

theorem convAnalogSubs_ok (l : List TAnalogSub) : ∀ (acc r : AnalogAcc),
    (∀ p ∈ acc.analog, analogOk p.2 = true) → convAnalogSubs l acc = .ok r → ∀ p ∈ r.analog, analogOk p.2 = true := by
  induction l with
  | nil => intro acc r ha h; simp only [convAnalogSubs, Outcome.ok.injEq] at h; subst h; exact ha
  | cons a rest ih =>
    intro acc r ha h
    simp only [convAnalogSubs] at h
    split at h
    · rename_i tmp htmp
      split at h
      · refine ih _ r ?_ h
        intro p hp
        simp only at hp
        rcases List.mem_append.mp hp with h1 | h1
        · exact ha p (List.mem_filter.mp h1).1
        · obtain ⟨q, hq, rfl⟩ := List.mem_map.mp h1
          obtain ⟨k', v', -, -, h3⟩ := C10_table_values _ _ _ _ htmp q hq
          exact convAnalog_ok h3
      · cases h
      · cases h
    · cases h
    · cases h

theorem convMapping_ok {m : TMapping} {x : Mapping} (h : convMapping m = .ok x) : mappingOk x = true ∧ x.name = m.name := by
  unfold convMapping at h
  split at h
  · rename_i midi hmidi
    split at h
    · rename_i a ha
      simp only [Outcome.ok.injEq] at h; subst h
      refine ⟨?_, rfl⟩
      have k1 := convKeysSubs_ok m.keys [] midi (fun p hp => by cases hp) hmidi
      have k2 := convAnalogSubs_ok m.analog {} a (fun p hp => by cases hp) ha
      simp only [mappingOk, Bool.and_eq_true, List.all_eq_true, Bool.decide_and, decide_eq_true_eq]
      exact ⟨k1, k2⟩
    · cases h
    · cases h
  · cases h
  · cases h

theorem convMappings_ok (l : List TMapping) : ∀ r, convMappings l = .ok r →
    (∀ m ∈ r, mappingOk m = true) ∧ r.map (·.name) = l.map (·.name) := by
  induction l with
  | nil => intro r h; simp only [convMappings, Outcome.ok.injEq] at h; subst h; exact ⟨fun m hm => (by cases hm), rfl⟩
  | cons m rest ih =>
    intro r h
    simp only [convMappings] at h
    split at h
    · rename_i x hx
      split at h
      · rename_i l' hl'
        simp only [Outcome.ok.injEq] at h; subst h
        obtain ⟨i1, i2⟩ := ih l' hl'
        obtain ⟨c1, c2⟩ := convMapping_ok hx
        refine ⟨?_, by simp [c2, i2]⟩
        intro y hy
        rcases List.mem_cons.mp hy with e | e
        · rw [e]; exact c1
        · exact i1 y e
      · cases h
      · cases h
    · cases h
    · cases h

theorem lastIndexOf_lt {name : String} {ms : List Mapping} {i : Nat} (h : lastIndexOf name ms = some i) :
    i < ms.length ∧ ∃ m, ms[i]? = some m ∧ m.name = name := by
  unfold lastIndexOf at h
  cases hl : (ms.zipIdx.filter (fun p => p.1.name = name)).getLast? with
  | none => rw [hl] at h; cases h
  | some q =>
    rw [hl] at h
    simp only [Option.map_some, Option.some.injEq] at h
    have hm := List.mem_of_getLast? hl
    obtain ⟨hz, hn⟩ := List.mem_filter.mp hm
    obtain ⟨m, j⟩ := q
    simp only at h; subst h
    have := List.mem_zipIdx_iff_getElem?.mp hz
    simp only at this
    refine ⟨?_, m, this, by simpa using hn⟩
    by_cases hlt : j < ms.length
    · exact hlt
    · rw [List.getElem?_eq_none (by omega)] at this; cases this

/-! ### the whole conversion -/

/-- **in range**: whatever is accepted satisfies `Accepted` -/
theorem C10_in_range {t : TomlCfg} {c : PConfig} (h : convert t = .ok c) : Accepted c.cfg = true := by
  unfold convert at h
  split at h
  · cases h
  · cases h
  · rename_i maps hmaps
    split at h
    · cases h
    · cases h
    · split at h
      · cases h
      · split at h
        · cases h
        · rename_i idx hidx
          split at h
          · cases h
          · cases h
          · split at h
            · cases h
            · split at h
              · cases h
              · rename_i hv hc
                simp only [Outcome.ok.injEq] at h; subst h
                have a1 : maps.all mappingOk = true := List.all_eq_true.mpr (convMappings_ok _ _ hmaps).1
                have a2 := (lastIndexOf_lt hidx).1
                simp only [Accepted, a1, Bool.true_and, Bool.and_eq_true, decide_eq_true_eq]
                repeat' apply And.intro
                all_goals first | exact a2 | omega | (split <;> omega) | (simp only [Int.ofNat_le]; done) | simp

/-- **scalars**: mode, exit sequence, identifier, defaults and colours are what the structure says -/
theorem C10_scalars {t : TomlCfg} {c : PConfig} (h : convert t = .ok c) :
    supportedMode t.mode = some c.cfg.mode ∧ convExit t.exitSeq = .ok c.cfg.exitSeq ∧
    c.id = (t.bus, t.vendor, t.product, t.version) ∧ c.uniq = t.uniq ∧
    c.cfg.defOct = t.defOct ∧ c.cfg.defSemi = t.defSemi ∧ c.cfg.defCh = t.defCh ∧
    c.cfg.vel = (if t.defVel = 0 then 64 else t.defVel) ∧
    lastIndexOf t.defMap c.cfg.maps = some c.cfg.defMap ∧ c.colors = t.colors.map toColor ∧
    c.cfg.maps.map (·.name) = t.maps.map (·.name) := by
  unfold convert at h
  split at h
  · cases h
  · cases h
  · rename_i maps hmaps
    split at h
    · cases h
    · cases h
    · split at h
      · cases h
      · rename_i mode hmode
        split at h
        · cases h
        · rename_i idx hidx
          split at h
          · cases h
          · cases h
          · rename_i ex hex
            split at h
            · cases h
            · split at h
              · cases h
              · simp only [Outcome.ok.injEq] at h; subst h
                exact ⟨hmode, hex, rfl, rfl, rfl, rfl, rfl, rfl, hidx, rfl, (convMappings_ok _ _ hmaps).2⟩

/-- the exit sequence keeps its order and length: entry by entry it is the key code of the name in the file -/
theorem convExit_spec (l : List String) : ∀ r, convExit l = .ok r →
    r.map some = l.map (fun k => keyToEvCode k Gen.kEYFromString) := by
  induction l with
  | nil => intro r h; simp only [convExit, Outcome.ok.injEq] at h; subst h; rfl
  | cons k rest ih =>
    intro r h
    simp only [convExit] at h
    split at h
    · cases h
    · rename_i c hc
      split at h
      · rename_i l' hl'
        simp only [Outcome.ok.injEq] at h; subst h
        simp only [List.map_cons, hc, ih l' hl']
      · cases h
      · cases h

/-! ### rejections -/

theorem C10_rejects_mode (t : TomlCfg) (h : supportedMode t.mode = none) : convert t = .err := by
  unfold convert
  split
  · rename_i hp; exact absurd hp (C09.convMappings_total _)
  · rfl
  · split
    · rename_i hp; exact absurd hp (C09.convTable_total _ _ (by intro s; split <;> simp) _)
    · rfl
    · rw [h]

theorem C10_rejects_channel (t : TomlCfg) (h : t.defCh < 1 ∨ t.defCh > 16) : convert t = .err := by
  unfold convert
  cases hc : convert t with
  | err => unfold convert at hc; exact hc
  | panic => exact absurd hc (C09.C09_convert_total t)
  | ok c =>
    have := C10_in_range hc
    have hs := (C10_scalars hc).2.2.2.2.2.2.1
    simp only [Accepted, Bool.and_eq_true, decide_eq_true_eq, Bool.decide_and] at this
    omega

theorem C10_rejects_velocity (t : TomlCfg) (h : t.defVel < 0 ∨ t.defVel > 127) : convert t = .err := by
  cases hc : convert t with
  | err => rfl
  | panic => exact absurd hc (C09.C09_convert_total t)
  | ok c =>
    have := C10_in_range hc
    have hs := (C10_scalars hc).2.2.2.2.2.2.2.1
    simp only [Accepted, Bool.and_eq_true, decide_eq_true_eq, Bool.decide_and] at this
    rw [hs] at this
    split at this <;> omega

theorem C10_rejects_default_mapping (t : TomlCfg) (h : t.defMap ∉ t.maps.map (·.name)) : convert t = .err := by
  cases hc : convert t with
  | err => rfl
  | panic => exact absurd hc (C09.C09_convert_total t)
  | ok c =>
    obtain ⟨-, -, -, -, -, -, -, -, hidx, -, hnames⟩ := C10_scalars hc
    obtain ⟨-, m, hm, hn⟩ := lastIndexOf_lt hidx
    exfalso; apply h
    rw [← hnames, ← hn]
    exact List.mem_map_of_mem (List.mem_of_getElem? hm)

/-- an unknown key name or an unsupported action in the action table -/
theorem C10_rejects_action_table (t : TomlCfg)
    (h : ∃ e ∈ t.actions, keyToEvCode e.1 Gen.kEYFromString = none ∨ supportedAction e.2 = none) : convert t = .err := by
  unfold convert
  split
  · rename_i hp; exact absurd hp (C09.convMappings_total _)
  · rfl
  · rw [C10_table_rejects _ _ (by intro s; split <;> simp) _ ?_]
    obtain ⟨e, he, hor⟩ := h
    refine ⟨e, he, ?_⟩
    rcases hor with h1 | h1
    · exact Or.inl h1
    · right; simp only [h1]

/-! ### what a key entry means -/

example : convKey "60" = .ok ⟨60, 0⟩ := by decide
example : convKey "c#3,5" = .ok ⟨61, 5⟩ := by decide
example : convKey "C-2" = .ok ⟨0, 0⟩ := by decide
example : convKey "128" = .err := by decide
example : convKey "60,16" = .err := by decide
example : convKey "H3" = .err := by decide
example : convKey "c20" = .err := by decide
example : convKey "60,1,2" = .err := by decide

/-- a key entry is rejected unless it has one or two comma-separated parts, an offset in 0..15, and a note that is a number
    in 0..127 or one of the 128 note names -/
theorem C10_key_rejects (v : String) (k : Key) (h : convKey v = .ok k) : k.note ≤ 127 ∧ k.chOff ≤ 15 := by
  have := convKey_ok h
  simpa [keyOk] using this

/-! ### non-vacuity -/

def exToml : TomlCfg :=
  { mode := "interrupt", exitSeq := ["KEY_ESC", "x1e"], bus := 3, vendor := 1, product := 2, version := 3, uniq := "",
    defOct := 1, defSemi := -1, defCh := 16, defMap := "Piano", defVel := 0,
    actions := [("KEY_F1", "octave_up")], colors := [0xff8000],
    maps := [⟨"Piano", [⟨"", [("KEY_A", "c3"), ("x10", "61,2")]⟩], []⟩] }

example : (convert exToml).isPanic = false := by
  have := C09.C09_convert_total exToml
  cases h : convert exToml <;> simp_all [Outcome.isPanic]

end Hidi.Props.C10
