/-
  C13 — Panic silences the current channel and leaves the device consistent.

  * `C13_messages`    : an (unswallowed, unpaired) panic press emits exactly CC 123 value 0 followed by Note Off for
                        the notes 0..127, all on the current channel — `panicMsgs d.channel`;
  * `C13_quiet`       : none of these can start a sound (no Note On with velocity > 0);
  * `C13_state`       : the press changes nothing of the playing state: octave, semitone, channel, mapping, velocity,
                        the note trackers and the counters are untouched (only the key / action trackers and the
                        MIDI-input tracker, which is cleared);
  * `C13_press_release_identity` : after press and release of the panic key the device equals the device before,
                        with the MIDI-input tracker cleared;
  * `C13_ext_irrelevant` : key handling never reads the MIDI-input tracker — outputs are identical and the states
                        stay identical up to that tracker.  Together: every continuation behaves exactly as if the
                        panic had not happened (`C13_as_if_not_happened`), in particular keys still held release
                        with at most their own recorded Note Off (C02) and later presses are unaffected;
  * `C13_monitor`     : the monitor evaluated on the implementation never fires on the model.
-/
import HidiProofs.KeyHistories
namespace Hidi.Props.C13
open Hidi Hidi.Spec Hidi.EngineSim Hidi.KeyHist

theorem C13_monitor (cfg : Config) (evs : List Ev) (disc : Bool)
    (hacc : Accepted cfg = true) (hk : evs.all keyOnly = true) :
    failsOf "C13" (checkAll (modelTrace cfg evs disc)) = [] :=
  no_fails_of "C13" (by decide) cfg evs disc hacc hk

/-- the panic press when no up/down pair is completed by it (panic itself belongs to no pair) -/
theorem C13_messages {cfg : Config} {d : Dev} (hd : DInv cfg d) (sub : Sub) (code : Code)
    (ha : alookup code cfg.actions = some .panic) (hsw : (kt d code 1).exitComplete = false)
    (hnp : (withAct (kt d code 1) .panic).checkDouble.2 = false) :
    (d.handleKey sub code 1).2 = panicMsgs d.channel := by
  rw [handleKey_eq hd, ha]
  simp only [hsw, Bool.false_eq_true, and_false, if_false, if_true]
  rw [actPress_eq, hnp]
  simp only [Bool.false_eq_true, if_false]
  rw [invokePress_outs]
  simp only [if_true]
  have h4 : (withAct (kt d code 1) Action.panic).channel = d.channel := (kt_frame d code 1).2.2.2.1
  rw [h4]
  exact panicOuts_eq hd.ch

/-- nothing in the panic messages can start a sound, and a receiver that had anything sounding on that channel
    hears nothing on it afterwards -/
theorem C13_quiet (ch : Nat) : (panicMsgs ch).all quiet = true := panicMsgs_quiet ch

theorem C13_messages_shape (ch : Nat) :
    panicMsgs ch = .midi (0xB0 + ch) 123 0 :: (List.range 128).map (fun n => .midi (0x80 + ch) n 0) := rfl

/-- the press leaves the playing state alone -/
theorem C13_state {cfg : Config} {d : Dev} (hd : DInv cfg d) (sub : Sub) (code : Code)
    (ha : alookup code cfg.actions = some .panic) (hsw : (kt d code 1).exitComplete = false) :
    let d' := (d.handleKey sub code 1).1
    stateKeyOf (StObs.ofDev d') = stateKeyOf (StObs.ofDev d) ∨ (withAct (kt d code 1) .panic).checkDouble.2 = true := by
  intro d'
  by_cases hnp : (withAct (kt d code 1) .panic).checkDouble.2 = true
  · exact Or.inr hnp
  · left
    have hnp' : (withAct (kt d code 1) .panic).checkDouble.2 = false := Bool.eq_false_iff.mpr hnp
    have : d' = ((withAct (kt d code 1) .panic).invokePress .panic).1 := by
      show (d.handleKey sub code 1).1 = _
      rw [handleKey_eq hd, ha]
      simp only [hsw, Bool.false_eq_true, and_false, if_false, if_true]
      rw [actPress_eq, hnp']
      simp only [Bool.false_eq_true, if_false]
    rw [this]
    have hk := invokePress_key (withAct (kt d code 1) .panic) .panic
    obtain ⟨h1, h2, h3, h4, h5, h6, -⟩ := kt_frame d code 1
    have e1 : ((withAct (kt d code 1) .panic).invokePress .panic).1.octave = (kt d code 1).octave := congrArg (·.1) hk
    have e2 : ((withAct (kt d code 1) .panic).invokePress .panic).1.semitone = (kt d code 1).semitone :=
      congrArg (·.2.1) hk
    have e3 : ((withAct (kt d code 1) .panic).invokePress .panic).1.channel = (kt d code 1).channel :=
      congrArg (·.2.2.1) hk
    have e4 : ((withAct (kt d code 1) .panic).invokePress .panic).1.mapping = (kt d code 1).mapping :=
      congrArg (·.2.2.2) hk
    simp only [stateKeyOf, StObs.ofDev, e1, e2, e3, e4, h2, h3, h4, h6]

theorem C13_trackers {cfg : Config} {d : Dev} (hd : DInv cfg d) (sub : Sub) (code : Code)
    (ha : alookup code cfg.actions = some .panic) (hsw : (kt d code 1).exitComplete = false) :
    let d' := (d.handleKey sub code 1).1
    d'.noteTr = d.noteTr ∧ d'.anaTr = d.anaTr ∧ d'.counter = d.counter ∧ d'.velocity = d.velocity ∧ d'.cfg = d.cfg := by
  intro d'
  have : d' = (actPress (kt d code 1) .panic).1 := by
    show (d.handleKey sub code 1).1 = _
    rw [handleKey_eq hd, ha]
    simp only [hsw, Bool.false_eq_true, and_false, if_false, if_true]
  rw [this]
  have hf := (actPress_model (kt_dinv hd code 1) .panic).2.1
  obtain ⟨h1, h2, h3, h4, h5, h6, h7, h8, h9, -⟩ := kt_frame d code 1
  exact ⟨hf.noteTr.trans h7, hf.anaTr.trans h8, hf.counter.trans h9, hf.velocity.trans h5, hf.cfg.trans h1⟩

/-! ### "as if panic had not happened" -/

theorem serase_sinsert {α} [DecidableEq α] {a : α} {l : List α} (h : a ∉ l) : serase a (sinsert a l) = l := by
  unfold serase sinsert
  rw [if_neg h, List.filter_append]
  simp
  intro x hx hxa; exact h (hxa ▸ hx)

/-- a device that differs only in the MIDI-input tracker -/
def withExt (d : Dev) (x : List (Nat × Nat)) : Dev := { d with ext := x }

/-- press and release of the panic key (fresh key, panic not already tracked, no pair completed): the device is
    back where it was, with the MIDI-input tracker cleared -/
theorem C13_press_release_identity {cfg : Config} {d : Dev} (hd : DInv cfg d) (sub : Sub) (code : Code)
    (ha : alookup code cfg.actions = some .panic) (hsw : (kt d code 1).exitComplete = false)
    (hnp : (withAct (kt d code 1) .panic).checkDouble.2 = false)
    (hkey : code ∉ d.keyTr) (hact : Action.panic ∉ d.actTr) :
    ((d.handleKey sub code 1).1.handleKey sub code 0).1 = withExt d [] ∧
    ((d.handleKey sub code 1).1.handleKey sub code 0).2 = [] := by
  have e1 : (d.handleKey sub code 1).1 = ((withAct (kt d code 1) .panic).invokePress .panic).1 := by
    rw [handleKey_eq hd, ha]
    simp only [hsw, Bool.false_eq_true, and_false, if_false, if_true]
    rw [actPress_eq, hnp]
    simp only [Bool.false_eq_true, if_false]
  have hd1 : DInv cfg (d.handleKey sub code 1).1 := by
    rw [e1]; exact invokePress_dinv (withAct_dinv (kt_dinv hd code 1) _) _
  rw [handleKey_eq hd1, ha]
  have h10 : ¬ ((0 : Int) = 1) := by omega
  simp only [h10, false_and, if_false, if_true, and_true]
  rw [e1]
  simp only [Dev.invokePress, withAct, kt, actRelease, Dev.invokeRelease, if_true, if_false, h10, withExt]
  have n1 : ¬ (Action.panic = Action.multinote) := by decide
  simp only [n1, if_false, serase_sinsert hkey, serase_sinsert hact]

theorem kt_ext (d : Dev) (x : List (Nat × Nat)) (code : Code) (val : Int) :
    kt (withExt d x) code val = withExt (kt d code val) x := by
  unfold kt withExt; split <;> rfl

theorem noteOn_ext (d : Dev) (x : List (Nat × Nat)) (sub : Sub) (code : Code) :
    (withExt d x).noteOn sub code = (withExt (d.noteOn sub code).1 x, (d.noteOn sub code).2) := by
  unfold Dev.noteOn withExt Dev.curMap Dev.setCount Dev.count Dev.transposed
  simp only []
  repeat' split
  all_goals rfl

theorem noteOff_ext (d : Dev) (x : List (Nat × Nat)) (code : Code) :
    (withExt d x).noteOff code = (withExt (d.noteOff code).1 x, (d.noteOff code).2) := by
  unfold Dev.noteOff withExt Dev.setCount Dev.count
  simp only []
  repeat' split
  all_goals rfl

theorem checkDouble_ext (d : Dev) (x : List (Nat × Nat)) :
    (withExt d x).checkDouble = (withExt d.checkDouble.1 x, d.checkDouble.2) := by
  unfold Dev.checkDouble withExt
  simp only []
  repeat' split
  all_goals rfl

/-- `invokePress` either keeps the tracker (`x`) or clears it (panic) — in both cases independently of the rest -/
theorem invokePress_ext (d : Dev) (x : List (Nat × Nat)) (a : Action) :
    ((withExt d x).invokePress a).2 = (d.invokePress a).2 ∧
    withExt ((withExt d x).invokePress a).1 [] = withExt (d.invokePress a).1 [] := by
  unfold Dev.invokePress withExt
  cases a <;> simp only <;> (try split) <;> first | exact ⟨rfl, rfl⟩ | simp

theorem actRelease_ext (d : Dev) (x : List (Nat × Nat)) (a : Action) :
    actRelease (withExt d x) a = withExt (actRelease d a) x := by
  unfold actRelease withExt Dev.multinote Dev.invokeRelease
  simp only []
  repeat' split
  all_goals rfl

theorem dinv_ext {cfg : Config} {d : Dev} (hd : DInv cfg d) (x : List (Nat × Nat)) : DInv cfg (withExt d x) :=
  ⟨hd.cfg_eq, hd.dead, hd.ana, hd.ch, hd.map, hd.vel, hd.oct, hd.semi, hd.wf⟩

theorem withExt_withExt (d : Dev) (x y : List (Nat × Nat)) : withExt (withExt d x) y = withExt d y := rfl

/-- **key handling never reads the MIDI-input tracker**: same outputs, same next state up to that tracker -/
theorem C13_ext_irrelevant {cfg : Config} {d : Dev} (hd : DInv cfg d) (x : List (Nat × Nat))
    (sub : Sub) (code : Code) (val : Int) :
    ((withExt d x).handleKey sub code val).2 = (d.handleKey sub code val).2 ∧
    withExt ((withExt d x).handleKey sub code val).1 [] = withExt (d.handleKey sub code val).1 [] := by
  rw [handleKey_eq (dinv_ext hd x), handleKey_eq hd, kt_ext]
  have hex : (withExt (kt d code val) x).exitComplete = (kt d code val).exitComplete := rfl
  rw [hex]
  split
  · exact ⟨rfl, rfl⟩
  · cases alookup code cfg.actions with
    | some a =>
      simp only
      split
      · rw [actPress_eq, actPress_eq]
        have hw : withAct (withExt (kt d code val) x) a = withExt (withAct (kt d code val) a) x := rfl
        rw [hw, checkDouble_ext]
        simp only
        split
        · exact ⟨rfl, rfl⟩
        · exact invokePress_ext _ x a
      · split
        · rw [actRelease_ext]; exact ⟨rfl, rfl⟩
        · exact ⟨rfl, rfl⟩
    | none =>
      simp only
      split
      · rw [noteOn_ext]; exact ⟨rfl, rfl⟩
      · split
        · rw [noteOff_ext]; exact ⟨rfl, rfl⟩
        · exact ⟨rfl, rfl⟩

/-- key events only (value 2 repeats are dropped before the handler) -/
def keyRun (d : Dev) : List (Sub × Code × Int) → Dev × List (List Out)
  | [] => (d, [])
  | (s, c, v) :: r => let p := d.handleKey s c v; let q := keyRun p.1 r; (q.1, p.2 :: q.2)

/-- every state reached by key handling from a `DInv` state is a `DInv` state (accepted configuration) -/
theorem handleKey_dinv {cfg : Config} (hacc : Accepted cfg = true) {d : Dev} (hd : DInv cfg d)
    (sub : Sub) (code : Code) (val : Int) (hv : val ≠ 2) : DInv cfg (d.handleKey sub code val).1 := by
  -- use the simulation step with a bookkeeping whose `ok` flag is off (no discipline needed for `DInv`)
  let b : Book := ⟨StObs.ofDev d, d.keyTr, [], [], [], false, false⟩
  have hinv : Inv cfg d b := ⟨hd, rfl, rfl, rfl, fun h => by simp [b] at h⟩
  have := (sim_key hacc hinv 0 sub code val hv).1
  exact this.dinv

/-- **continuations are unaffected**: running any key history from `d` and from `d` with another MIDI-input tracker
    (in particular the cleared one a panic leaves behind) produces the same outputs step by step -/
theorem C13_as_if_not_happened {cfg : Config} (hacc : Accepted cfg = true) (evs : List (Sub × Code × Int))
    (hv : ∀ e ∈ evs, e.2.2 ≠ 2) :
    ∀ (d : Dev) (x : List (Nat × Nat)), DInv cfg d →
      (keyRun (withExt d x) evs).2 = (keyRun d evs).2 := by
  induction evs with
  | nil => intro d x _; rfl
  | cons e es ih =>
    intro d x hd
    obtain ⟨s, c, v⟩ := e
    have hv' : v ≠ 2 := hv (s, c, v) List.mem_cons_self
    obtain ⟨h1, h2⟩ := C13_ext_irrelevant hd x s c v
    simp only [keyRun]
    rw [h1]
    congr 1
    have hd1 := handleKey_dinv hacc hd s c v hv'
    have hd2 := handleKey_dinv hacc (dinv_ext hd x) s c v hv'
    have hes : ∀ e ∈ es, e.2.2 ≠ 2 := fun e he => hv e (List.mem_cons_of_mem _ he)
    have a1 := ih hes ((withExt d x).handleKey s c v).1 [] hd2
    have a2 := ih hes (d.handleKey s c v).1 [] hd1
    rw [← a1, ← a2, h2]

/-! ### non-vacuity: panic with a key held on another channel, then the key releases its own Note Off -/

def exCfg : Config :=
  { maps := [{ name := "Piano", midi := [(("", 30), ⟨60, 2⟩)], analog := [], dz := [], defDz := [] }],
    actions := [(1, .panic)], exitSeq := [], mode := .noRepeat, defOct := 0, defSemi := 0, defCh := 3,
    defMap := 0, vel := 64, axes := [] }

example : ((Dev.init exCfg).run [.key "" 30 1, .key "" 1 1, .key "" 1 0, .key "" 30 0]).2 =
    [[noteOnMsg 4 60 64], panicMsgs 2, [], [noteOffMsg 4 60]] := by decide

end Hidi.Props.C13
