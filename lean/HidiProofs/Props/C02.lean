/-
  C02 — The release of a key is pinned to its press; state actions are silent.

  * `C02_press_records`  : a sounding press records exactly the (note, channel) it resolved to *then*;
  * `C02_frame_*`        : action presses / releases never touch the tracker (so the record survives any number
                           of octave / semitone / channel / mapping changes, pair resets and panics);
  * `C02_release_pinned` : the release of a key emits nothing but the Note Off of the recorded pair — whatever the
                           current octave, semitone, channel and mapping are, also when the key is no longer
                           mapped in the current mapping;
  * `C02_actions_silent` : a press or release of a key bound to a state action emits no MIDI at all;
  * `C02_monitor`        : the monitor evaluated on the implementation never fires on the model.

  All statements are about *every* state satisfying the invariant `DInv` (every state reachable by a key-only
  history of an accepted configuration, `reachable_dinv`).
-/
import HidiProofs.KeyHistories
namespace Hidi.Props.C02
open Hidi Hidi.Spec Hidi.EngineSim Hidi.KeyHist

theorem C02_monitor (cfg : Config) (evs : List Ev) (disc : Bool)
    (hacc : Accepted cfg = true) (hk : evs.all keyOnly = true) :
    failsOf "C02" (checkAll (modelTrace cfg evs disc)) = [] :=
  no_fails_of "C02" (by decide) cfg evs disc hacc hk

/-- every state reached by a key-only history of an accepted configuration satisfies the invariant -/
theorem reachable_dinv {cfg : Config} (hacc : Accepted cfg = true) {evs : List Ev} (hk : evs.all keyOnly = true) :
    DInv cfg ((Dev.init cfg).run evs).1 := by
  rw [← modelSteps_final]; exact (final_inv hacc hk).dinv

/-- a press of a note key (not bound to an action, not completing the exit sequence): the tracker records
    the pair the key resolves to in the state of the press -/
theorem C02_press_records {cfg : Config} {d : Dev} (hd : DInv cfg d) (sub : Sub) (code : Code)
    (hna : alookup code cfg.actions = none) (hsw : (kt d code 1).exitComplete = false) :
    (d.handleKey sub code 1).1.noteTr =
      match resolve cfg (StObs.ofDev d) (u8 cfg.vel) sub code with
      | none => d.noteTr
      | some (n, ch, _) => ainsert code (n, ch) d.noteTr := by
  rw [handleKey_eq hd, hna]
  simp only [hsw, Bool.false_eq_true, and_false, if_false, if_true]
  rw [noteOn_eq (kt_dinv hd code 1), ofDev_kt]
  have h7 := (kt_frame d code 1).2.2.2.2.2.2.1
  cases resolve cfg (StObs.ofDev d) (u8 cfg.vel) sub code with
  | none => exact h7
  | some r => obtain ⟨n, ch, v⟩ := r; simp only [pressed, h7]

/-- pressing a key bound to an action leaves the tracker alone -/
theorem C02_frame_action_press {cfg : Config} {d : Dev} (hd : DInv cfg d) (sub : Sub) (code : Code) (a : Action)
    (ha : alookup code cfg.actions = some a) (hsw : (kt d code 1).exitComplete = false) :
    (d.handleKey sub code 1).1.noteTr = d.noteTr := by
  rw [handleKey_eq hd, ha]
  simp only [hsw, Bool.false_eq_true, and_false, if_false, if_true]
  have := (actPress_model (kt_dinv hd code 1) a).2.1.noteTr
  rw [this]
  exact (kt_frame d code 1).2.2.2.2.2.2.1

/-- releasing a key bound to an action leaves the tracker alone -/
theorem C02_frame_action_release {cfg : Config} {d : Dev} (hd : DInv cfg d) (sub : Sub) (code : Code) (a : Action)
    (ha : alookup code cfg.actions = some a) :
    (d.handleKey sub code 0).1.noteTr = d.noteTr ∧ (d.handleKey sub code 0).2 = [] := by
  rw [handleKey_eq hd, ha]
  have h10 : ¬ ((0 : Int) = 1) := by omega
  simp only [h10, false_and, if_false, if_true]
  refine ⟨?_, trivial⟩
  rw [(actRelease_frame (kt d code 0) a).2.2.2.2.2.2.1]
  exact (kt_frame d code 0).2.2.2.2.2.2.1

/-- **release pinned to the press**: the release of a note key emits at most the Note Off of the recorded
    pair, and nothing when nothing is recorded; the current octave / semitone / channel / mapping do not enter -/
theorem C02_release_pinned {cfg : Config} {d : Dev} (hd : DInv cfg d) (sub : Sub) (code : Code)
    (hna : alookup code cfg.actions = none) :
    (d.handleKey sub code 0).2 =
      match alookup code d.noteTr with
      | none => []
      | some (n, ch) => releaseOuts cfg.mode (decide (d.count ch n = 1)) ch n := by
  rw [handleKey_eq hd, hna]
  have h10 : ¬ ((0 : Int) = 1) := by omega
  simp only [h10, false_and, if_false, if_true]
  rw [noteOff_eq (kt_dinv hd code 0)]
  have h7 := (kt_frame d code 0).2.2.2.2.2.2.1
  have h9 := (kt_frame d code 0).2.2.2.2.2.2.2.2.1
  rw [h7]
  cases alookup code d.noteTr with
  | none => rfl
  | some q => obtain ⟨n, ch⟩ := q; simp only [Dev.count, h9]; trivial

/-- ... and every message of `releaseOuts` is the Note Off of that pair -/
theorem C02_release_only_own_off (mode : Collision) (last : Bool) (ch n : Nat) :
    ∀ o ∈ releaseOuts mode last ch n, o = noteOffMsg ch n := by
  intro o ho
  unfold releaseOuts at ho
  cases mode <;> cases last <;> simp at ho <;> exact ho

/-- **state actions are silent**: octave / semitone / channel / mapping up and down (single or completing a pair),
    multinote and cc_learning emit nothing, on press and on release -/
theorem C02_actions_silent {cfg : Config} {d : Dev} (hd : DInv cfg d) (sub : Sub) (code : Code) (a : Action)
    (ha : alookup code cfg.actions = some a) (hs : isStateAction a = true) (val : Int) :
    ∀ o ∈ (d.handleKey sub code val).2, isMidi o = false := by
  rw [handleKey_eq hd, ha]
  split
  · intro o ho; simp at ho; subst ho; rfl
  · simp only
    split
    · rcases (actPress_model (kt_dinv hd code val) a).2.2 with h | ⟨h, -⟩
      · rw [h]; intro o ho; simp at ho
      · subst h; simp [isStateAction] at hs
    · split <;> (intro o ho; simp at ho)

/-! ### non-vacuity -/

def exCfg : Config :=
  { maps := [{ name := "Piano", midi := [(("", 30), ⟨60, 0⟩)], analog := [], dz := [], defDz := [] }],
    actions := [(59, .octaveUp)], exitSeq := [], mode := .interrupt, defOct := 0, defSemi := 0, defCh := 1,
    defMap := 0, vel := 64, axes := [] }

/-- press, octave up (silent), release: the Note Off is for note 60, not 72 -/
example : ((Dev.init exCfg).run [.key "" 30 1, .key "" 59 1, .key "" 59 0, .key "" 30 0]).2 =
    [[noteOnMsg 0 60 64], [], [], [noteOffMsg 0 60]] := by decide

end Hidi.Props.C02
