/-
  GenTie — the function bodies of the key path, regenerated from the Go sources, compute what the model computes.

  `Hidi/Gen/Bodies.lean` is written on every run by the Go → Lean translator `tools/extract/golite.go` from
  `internal/pkg/midi/device/device.go` and `events.go`: one Lean function per Go method (the twelve up / down / reset
  methods, `CCLearningOn/Off`, `Panic`, `checkDoubleActions`, `NoteOn`, `NoteOff`, `AnalogNoteOn`, `AnalogNoteOff`,
  `checkExitSequence`, the two dispatch tables of `NewDevice`, and `handleKEYEvent`).  The theorems below say that
  each of them equals the hand-written model function the property theorems (C01–C04, C13, C14) are about — for
  every state, every configuration and every event, not for sampled ones.  A change to one of these Go bodies changes
  the generated definition; if the change alters the behaviour the equality is false and this file stops compiling
  (and the differential run then looks for the input on which code and model differ).

  * `GenTie_translated`      : every method of the list was translated (none fell outside the translator's subset);
  * `GenTie_<Method>`        : generated body = model function;
  * `GenTie_handleKEYEvent`  : the whole key handler, for every state with `channel < 256` (a `uint8`);
  * `GenTie_reachable`       : in particular in every non-crashed state reached by any history of keys, axes, SYN and
                               MIDI input of any accepted configuration;
  * `GenTie_C02_release_pinned`, `GenTie_C13_panic_messages`, `GenTie_C14_signal` : three property theorems restated
                               about the *generated* handler (what the Go code says now), obtained by rewriting with
                               the tie.
-/
import HidiProofs.Bodies
import HidiProofs.Props.C02mixed
import HidiProofs.Props.C13mixed
import HidiProofs.Props.C14mixed
import HidiProofs.Props.C04mixed
namespace Hidi.Props.GenTie
open Hidi Hidi.GoLite Hidi.Gen Hidi.BodiesTie Hidi.Spec Hidi.EngineSim Hidi.AnaIndep Hidi.KInvReach

/-- none of the methods of the key path fell outside the translator's subset -/
theorem GenTie_translated :
    ["OctaveDown", "OctaveUp", "OctaveReset", "SemitoneDown", "SemitoneUp", "SemitoneReset", "MappingDown",
      "MappingUp", "MappingReset", "ChannelDown", "ChannelUp", "ChannelReset", "CCLearningOn", "CCLearningOff", "Panic",
      "checkDoubleActions", "NoteOn", "NoteOff", "AnalogNoteOn", "AnalogNoteOff", "checkExitSequence",
      "handleKEYEvent", "Multinote"].all (fun n => decide (n ∈ Body.translated)) = true := by
  decide

/-- `Multinote` (device.go), translated from the source: the pressed notes of the tracker, sorted (`sort.Ints` is the model's
    `sortInts`), differenced against the lowest; none or one pressed note disengages -/
theorem GenTie_multinote (d : Dev) : Body.Multinote (toG d) = toG d.multinote := by
  rw [Multinote_eq, toG_multinote]

/-- the dispatch table `actionsPress` and every method it names (`Panic`, `MappingUp/Down`, `OctaveUp/Down`,
    `SemitoneUp/Down`, `ChannelUp/Down`, `CCLearningOn`; `Multinote` does nothing on press) -/
theorem GenTie_actionsPress (d : Dev) (hc : d.channel < 256) (a : Action) :
    Body.invokeActionPress (toG d) a = toGR (d.invokePress a) := invokeActionPress_eq d hc a

theorem GenTie_actionsRelease (d : Dev) (a : Action) :
    Body.invokeActionRelease (toG d) a = toG (d.invokeRelease a) := invokeActionRelease_eq d a

/-- `checkDoubleActions` including the four reset methods it calls -/
theorem GenTie_checkDoubleActions (d : Dev) :
    Body.checkDoubleActions (toG d) = (toG d.checkDouble.1, d.checkDouble.2) := checkDouble_eq d

theorem GenTie_NoteOn (d : Dev) (sub : Sub) (node : String) (code : Code) (v t : Int) :
    Body.noteOn (toG d) sub node code v t = toGR (d.noteOn sub code) := noteOn_eq d sub node code v t

theorem GenTie_NoteOff (d : Dev) (sub : Sub) (node : String) (code : Code) (v t : Int) :
    Body.noteOff (toG d) sub node code v t = toGR (d.noteOff code) := noteOff_eq d sub node code v t

theorem GenTie_AnalogNoteOn (d : Dev) (id : Code × Bool) (note chOff : Nat) (sub : Sub) (node : String) (code : Code) (v t : Int) :
    Body.analogNoteOn (toG d) id (note : Int) (chOff : Int) sub node code v t = toGR (d.analogNoteOn id note chOff) :=
  analogNoteOn_eq d id note chOff sub node code v t

theorem GenTie_AnalogNoteOff (d : Dev) (id : Code × Bool) (sub : Sub) (node : String) (code : Code) (v t : Int) :
    Body.analogNoteOff (toG d) id sub node code v t = toGR (d.analogNoteOff id) := analogNoteOff_eq d id sub node code v t

theorem GenTie_checkExitSequence (d : Dev) :
    Body.checkExitSequence (toG d) = (if d.exitComplete then (toG d).emit .sig else toG d, d.exitComplete) :=
  checkExit_eq d

/-- **the key handler**: for every state (channel a `uint8`), sub-handler, key code, value and event type the
    translated `handleKEYEvent` ends in the model's state having sent the model's messages -/
theorem GenTie_handleKEYEvent (d : Dev) (hch : d.channel < 256) (sub : Sub) (node : String) (code : Code) (v t : Int) :
    Body.handleKEYEvent (toG d) sub node code v t = toGR (d.handleKey sub code v) := handleKey_eq d hch sub node code v t

theorem kinv_channel {cfg : Config} {d : Dev} (hd : KInv cfg d) : d.channel < 256 := by
  have := hd.ch
  have e : (setAna d []).channel = d.channel := rfl
  omega

/-- in every non-crashed state of every history of an accepted configuration -/
theorem GenTie_reachable (cfg : Config) (hacc : Accepted cfg = true) (evs : List Ev)
    (hdead : ((Dev.init cfg).run evs).1.dead = false) (sub : Sub) (node : String) (code : Code) (v t : Int) :
    Body.handleKEYEvent (toG ((Dev.init cfg).run evs).1) sub node code v t =
      toGR (((Dev.init cfg).run evs).1.handleKey sub code v) :=
  handleKey_eq _ (kinv_channel (reachable_kinv cfg hacc evs hdead)) sub node code v t

/-! ### property theorems about the generated handler -/

/-- C02 on the generated code: releasing a key sends exactly the Note Off recorded at its press (or nothing, by the
    collision mode) -/
theorem GenTie_C02_release_pinned {cfg : Config} {d : Dev} (hd : KInv cfg d) (sub : Sub) (node : String) (code : Code) (t : Int)
    (hna : alookup code cfg.actions = none) :
    (Body.handleKEYEvent (toG d) sub node code 0 t).out =
      match alookup code d.noteTr with
      | none => []
      | some (n, ch) => releaseOuts cfg.mode (decide (d.count ch n = 1)) ch n := by
  rw [handleKey_eq d (kinv_channel hd)]
  exact C02.C02_all_release_pinned hd sub code hna

/-- C13 on the generated code: the panic press sends All Notes Off and the 128 Note Offs on the current channel -/
theorem GenTie_C13_panic_messages {cfg : Config} {d : Dev} (hd : KInv cfg d) (sub : Sub) (node : String) (code : Code) (t : Int)
    (ha : alookup code cfg.actions = some .panic) (hsw : (kt d code 1).exitComplete = false)
    (hnp : (withAct (kt d code 1) .panic).checkDouble.2 = false) :
    (Body.handleKEYEvent (toG d) sub node code 1 t).out = panicMsgs d.channel := by
  rw [handleKey_eq d (kinv_channel hd)]
  exact C13.C13_all_messages hd sub code ha hsw hnp

/-- C04 / C03 on the generated code: a key press sends what the transposition, channel arithmetic and collision mode
    prescribe (`resolve`, `pressSpec`) -/
theorem GenTie_C04_press {cfg : Config} {d : Dev} (hd : KInv cfg d)
    (hcnt : ∀ ch n, d.count ch n = (holders d.noteTr (n, ch) : Int))
    (sub : Sub) (node : String) (code : Code) (t : Int) (hna : alookup code cfg.actions = none) (hsw : (kt d code 1).exitComplete = false) :
    (Body.handleKEYEvent (toG d) sub node code 1 t).out =
      match resolve cfg (StObs.ofDev d) (u8 cfg.vel) sub code with
      | none => []
      | some (n, ch, v) => C03.pressSpec cfg.mode (holders d.noteTr (n, ch)) ch n v := by
  rw [handleKey_eq d (kinv_channel hd)]
  exact C04.C04_all_press hd hcnt sub code hna hsw

/-- C14 on the generated code: the handler raises the termination signal iff the event is a press that completes the
    non-empty exit sequence -/
theorem GenTie_C14_signal {cfg : Config} {d : Dev} (hd : KInv cfg d) (sub : Sub) (node : String) (code : Code) (v t : Int) :
    Out.sig ∈ (Body.handleKEYEvent (toG d) sub node code v t).out ↔
      (v = 1 ∧ cfg.exitSeq ≠ [] ∧ ∀ k ∈ cfg.exitSeq, k ∈ d.keyTr ∨ k = code) := by
  rw [handleKey_eq d (kinv_channel hd)]
  obtain ⟨m, hm⟩ := hd.curMap
  have hc : d.cfg = cfg := hd.cfg_eq
  show Out.sig ∈ (d.handleKey sub code v).2 ↔ _
  rw [C14.C14_all_signal_key hm]
  constructor
  · rintro ⟨h1, h2⟩
    subst h1
    rw [C14.C14_complete_iff, hc] at h2
    exact ⟨rfl, h2⟩
  · rintro ⟨h1, h2⟩
    subst h1
    refine ⟨rfl, ?_⟩
    rw [C14.C14_complete_iff, hc]
    exact h2

/-! ### non-vacuity: the generated handler evaluated on concrete events -/

def exM : Mapping := { name := "Piano", midi := [(("", 30), ⟨60, 0⟩), (("", 31), ⟨62, 1⟩)], analog := [], dz := [], defDz := [] }
def exC : Config :=
  { maps := [exM], actions := [(59, .octaveUp), (1, .panic)], exitSeq := [56, 1], mode := .interrupt, defOct := 0, defSemi := 0,
    defCh := 1, defMap := 0, vel := 64, axes := [] }

/-- press of a mapped key: Note On 60 on channel 1 -/
example : (Body.handleKEYEvent (toG (Dev.init exC)) "" "" 30 1 1).out = [.midi 0x90 60 64] := by decide
/-- octave up, then key 31 (channel offset 1): Note On 74 on channel 2 -/
example : (Body.handleKEYEvent (Body.handleKEYEvent (toG (Dev.init exC)) "" "" 59 1 1) "" "" 31 1 1).out = [.midi 0x91 74 64] := by
  decide
/-- the exit sequence (Alt then Esc): the completing press raises the signal and is swallowed (no panic burst) -/
example : (Body.handleKEYEvent (Body.handleKEYEvent (toG (Dev.init exC)) "" "" 56 1 1) "" "" 1 1 1).out = [.sig] := by decide
-- Esc alone is the panic key: 129 messages
set_option maxRecDepth 16000 in
example : (Body.handleKEYEvent (toG (Dev.init exC)) "" "" 1 1 1).out.length = 129 := by decide

end Hidi.Props.GenTie
