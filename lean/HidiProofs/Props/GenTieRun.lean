/-
  GenTieRun — the regenerated event path run over a whole history produces the model's trace.

  `genStep` hands one event to the functions regenerated from the Go sources (`Body.processEvent` for key, axis and SYN
  events, `Body.midiInBody` for a MIDI-input message) and collects what they sent; `genRun` does that for a history.
  For every accepted configuration and every history of keys, axes, SYN and MIDI input that does not end in a crashed
  device (an axis without any deadzone entry is a Go panic), the result is the model's final state and the model's
  messages — so every theorem about `Dev.run` / `Dev.runFlat` (C01–C08, C13, C14) is a theorem about the code the
  translator read on this run.
-/
import HidiProofs.Props.GenTieAbs
import HidiProofs.BodiesMidiIn
import HidiProofs.Props.C14mixed
import HidiProofs.Props.GenTie
namespace Hidi.Props.GenTieRun
open Hidi Hidi.GoLite Hidi.Gen Hidi.BodiesTie Hidi.Spec

/-- one event through the regenerated code, starting with nothing sent: (state afterwards, what was sent) -/
def genStep (g : GSt) : Ev → GSt × List Out
  | .key sub code v => let r := Body.processEvent { g with out := [] } sub "" code v 1; ({ r with out := [] }, r.out)
  | .abs sub node code v => let r := Body.processEvent { g with out := [] } sub node code v 3; ({ r with out := [] }, r.out)
  | .syn => let r := Body.processEvent { g with out := [] } "" "" 0 0 0; ({ r with out := [] }, r.out)
  | .midiIn a b c => let r := Body.midiInBody { g with out := [] } a b c; ({ r with out := [] }, r.out)

def genRun (g : GSt) : List Ev → GSt × List Out
  | [] => (g, [])
  | e :: es =>
    let (g1, o1) := genStep g e
    let (g2, o2) := genRun g1 es
    (g2, o1 ++ o2)

theorem toG_out_nil (d : Dev) : ({ toG d with out := [] } : GSt) = toG d := rfl
theorem toGR_out_nil (r : Dev × List Out) : ({ toGR r with out := [] } : GSt) = toG r.1 := rfl
theorem toGR_out (r : Dev × List Out) : (toGR r).out = r.2 := rfl

/-- one event: regenerated code = model step, for every live state with `channel` a `uint8` -/
theorem genStep_eq (d : Dev) (hch : d.channel < 256) (hdead : d.dead = false) (e : Ev) :
    genStep (toG d) e = (toG (d.step e).1, (d.step e).2) := by
  cases e with
  | key sub code v =>
    simp only [genStep, toG_out_nil, processEvent_key d hch hdead, toGR_out_nil, toGR_out]
  | abs sub node code v =>
    simp only [genStep, toG_out_nil, processEvent_abs d hch hdead, toGR_out_nil, toGR_out]
  | syn =>
    simp only [genStep, toG_out_nil, processEvent_syn d hdead, toGR_out_nil, toGR_out]
  | midiIn a b c =>
    have h := midiIn_eq d a b c
    have hs : d.step (.midiIn a b c) = (d.midiIn a b c, []) := by
      unfold Dev.step; simp [hdead]
    simp only [genStep, toG_out_nil, hs]
    rw [h]
    rfl

theorem dead_sticky (d : Dev) (e : Ev) (h : (d.step e).1.dead = false) : d.dead = false := by
  cases hd : d.dead with
  | false => rfl
  | true => rw [C14.step_dead_of_dead d e hd] at h; rw [hd] at h; cases h

/-- **whole histories**: from every state satisfying the C05 invariant, as long as the device does not crash -/
theorem genRun_eq {cfg : Config} (hacc : Accepted cfg = true) :
    ∀ (evs : List Ev) (d : Dev), C05.DevOK cfg d → (d.run evs).1.dead = false →
      genRun (toG d) evs = (toG (d.runFlat evs).1, (d.runFlat evs).2) := by
  intro evs
  induction evs with
  | nil => intro d _ _; rfl
  | cons e es ih =>
    intro d hd hdead
    rw [C05.run_cons] at hdead
    have hd1 : (d.step e).1.dead = false := by
      cases h : (d.step e).1.dead with
      | false => rfl
      | true =>
        have := C14.run_dead_of_dead es (d.step e).1 h
        simp only at hdead
        rw [this, h] at hdead; cases hdead
    have hd0 : d.dead = false := dead_sticky d e hd1
    have hch : d.channel < 256 := by have := hd.2.1; omega
    have hok := C05.C05_step_ok cfg hacc d e hd
    simp only [genRun, genStep_eq d hch hd0 e, ih (d.step e).1 hok (by simpa using hdead)]
    simp [Dev.runFlat, C05.run_cons]

/-- from the initial state of an accepted configuration -/
theorem GenTie_run (cfg : Config) (hacc : Accepted cfg = true) (evs : List Ev)
    (hdead : ((Dev.init cfg).run evs).1.dead = false) :
    genRun (toG (Dev.init cfg)) evs = (toG ((Dev.init cfg).runFlat evs).1, ((Dev.init cfg).runFlat evs).2) :=
  genRun_eq hacc evs (Dev.init cfg) (C05.C05_init cfg hacc) hdead

/-- the initial state: the `Device{…}` literal of `NewDevice` (regenerated) is the model's `Dev.init` -/
theorem GenTie_newDevice (cfg : Config) : Body.newDevice cfg = toG (Dev.init cfg) := by
  unfold Body.newDevice Dev.init toG
  simp only [wrapU8, wrapInt, u8, GSt.mk.injEq, and_true, true_and]
  have h1 : ∀ x : Int, (((x % 256).toNat : Nat) : Int) = x % 256 := by intro x; omega
  exact ⟨(h1 _).symm, (h1 _).symm⟩

/-- **from construction to any history**: the regenerated constructor followed by the regenerated event path -/
theorem GenTie_run_from_new (cfg : Config) (hacc : Accepted cfg = true) (evs : List Ev)
    (hdead : ((Dev.init cfg).run evs).1.dead = false) :
    genRun (Body.newDevice cfg) evs = (toG ((Dev.init cfg).runFlat evs).1, ((Dev.init cfg).runFlat evs).2) := by
  rw [GenTie_newDevice]; exact GenTie_run cfg hacc evs hdead

/-- C05 for whole histories of the regenerated code: every message it sends is a well-formed MIDI channel message -/
theorem GenTie_run_wellformed (cfg : Config) (hacc : Accepted cfg = true) (evs : List Ev)
    (hdead : ((Dev.init cfg).run evs).1.dead = false)
    (hr : ∀ i (h : i < evs.length), evInRange cfg (StObs.ofDev ((Dev.init cfg).run (evs.take i)).1) evs[i] = true) :
    ∀ o ∈ (genRun (toG (Dev.init cfg)) evs).2, wellFormed o = true := by
  rw [GenTie_run cfg hacc evs hdead]
  intro o ho
  simp only [Dev.runFlat] at ho
  obtain ⟨os, hos, hoo⟩ := List.mem_flatten.mp ho
  exact C05.C05_run cfg hacc evs hr os hos o hoo

/-! ### non-vacuity: the regenerated code run on a concrete history (keys, an action, MIDI input, SYN) -/

example :
    (genRun (toG (Dev.init GenTie.exC))
      [.key "" 30 1, .key "" 59 1, .key "" 59 0, .syn, .midiIn 0x90 60 100, .key "" 31 1, .key "" 30 0, .key "" 31 0]).2 =
      [.midi 0x90 60 64, .midi 0x91 74 64, .midi 0x80 60 0, .midi 0x81 74 0] := by decide

end Hidi.Props.GenTieRun
