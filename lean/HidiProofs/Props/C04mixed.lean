/-
  C04 on states of histories of every event kind: the note / channel a press resolves to is computed from the current
  octave, semitone, channel and mapping — also when those were changed by an axis bound to actions, and whatever the
  key-emulating axes hold (transfer argument: `Props/C02mixed.lean`).
-/
import HidiProofs.KInvReach
import HidiProofs.Props.C04
namespace Hidi.Props.C04
open Hidi Hidi.Spec Hidi.EngineSim Hidi.AnaIndep Hidi.KInvReach

theorem C04_all_press {cfg : Config} {d : Dev} (hd : KInv cfg d)
    (hcnt : ∀ ch n, d.count ch n = (holders d.noteTr (n, ch) : Int))
    (sub : Sub) (code : Code) (hna : alookup code cfg.actions = none) (hsw : (kt d code 1).exitComplete = false) :
    (d.handleKey sub code 1).2 =
      match resolve cfg (StObs.ofDev d) (u8 cfg.vel) sub code with
      | none => []
      | some (n, ch, v) => C03.pressSpec cfg.mode (holders d.noteTr (n, ch)) ch n v := by
  rw [handleKey_split hd]
  exact C04_press hd hcnt sub code hna hsw

theorem C04_all_press_fresh {cfg : Config} {d : Dev} (hd : KInv cfg d)
    (hcnt : ∀ ch n, d.count ch n = (holders d.noteTr (n, ch) : Int))
    (sub : Sub) (code : Code) (hna : alookup code cfg.actions = none) (hsw : (kt d code 1).exitComplete = false)
    {n ch v : Nat} (hr : resolve cfg (StObs.ofDev d) (u8 cfg.vel) sub code = some (n, ch, v))
    (hfresh : holders d.noteTr (n, ch) = 0) :
    (d.handleKey sub code 1).2 = [noteOnMsg ch n v] := by
  rw [handleKey_split hd]
  exact C04_press_fresh hd hcnt sub code hna hsw hr hfresh

/-- each octave / semitone / channel / mapping action moves its value by exactly one (or stays at the bound) in every
    reachable state -/
theorem C04_all_unit_step {cfg : Config} {d : Dev} (hd : KInv cfg d) (a : Action) :
    stateKeyOf (StObs.ofDev (d.invokePress a).1) = actionEffect cfg (StObs.ofDev d) a := by
  have := C04_unit_step hd a
  rw [invokePress_ana] at this
  exact this

/-- **bounds** on every history of any event kinds -/
theorem C04_all_bounds (cfg : Config) (hacc : Accepted cfg = true) (evs : List Ev) :
    ((Dev.init cfg).run evs).1.channel < 16 ∧ ((Dev.init cfg).run evs).1.mapping < cfg.maps.length := by
  obtain ⟨_, h2, _, _, h5, _, _⟩ := Hidi.Props.C05.C05_run_ok cfg hacc evs
  exact ⟨h2, h5⟩

end Hidi.Props.C04
