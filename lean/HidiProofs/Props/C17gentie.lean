/-
  C17 (MIDI-input tracker) on the regenerated code: `Hidi/Gen/Bodies.lean` contains the translation of the receive
  clause of `handleInputEvents` (tools/extract/golite.go), and it equals the model's `Dev.midiIn` for every state and
  every three-byte message.  The tracker theorems of `Props/C17.lean` therefore hold of what the Go code says now.
-/
import HidiProofs.BodiesMidiIn
import HidiProofs.Props.C17
namespace Hidi.Props.C17gen
open Hidi Hidi.GoLite Hidi.Gen Hidi.BodiesTie

theorem C17_gen_translated : "handleInputEvents" ∈ Body.translated := by decide

/-- generated body = model, every state, every message -/
theorem C17_gen_midi_in (d : Dev) (a b c : Nat) :
    Body.midiInBody (toG d) (a : Int) (b : Int) (c : Int) = toG (d.midiIn a b c) := midiIn_eq d a b c

/-- Note On with velocity 0 removes the note (the repaired defect D17), on the generated code -/
theorem C17_gen_note_on_zero (d : Dev) (ch note : Nat) (hch : ch < 16) :
    (Body.midiInBody (toG d) ((0x90 + ch : Nat) : Int) (note : Int) ((0 : Nat) : Int)).ext = serase (ch, note) d.ext := by
  rw [midiIn_eq]
  exact C17.C17_midi_in_note_on_zero d ch note hch

theorem C17_gen_note_off (d : Dev) (ch note vel : Nat) (hch : ch < 16) :
    (Body.midiInBody (toG d) ((0x80 + ch : Nat) : Int) (note : Int) (vel : Int)).ext = serase (ch, note) d.ext := by
  rw [midiIn_eq]
  exact C17.C17_midi_in_note_off d ch note vel hch

theorem C17_gen_note_on (d : Dev) (ch note vel : Nat) (hch : ch < 16) (hv : 0 < vel) :
    (Body.midiInBody (toG d) ((0x90 + ch : Nat) : Int) (note : Int) (vel : Int)).ext = sinsert (ch, note) d.ext := by
  rw [midiIn_eq]
  exact C17.C17_midi_in_note_on d ch note vel hch hv

end Hidi.Props.C17gen
