/-
  C08 — emulated keys: an axis that behaves like two keys.

  Model: `Dev.absKey`, `Dev.analogNoteOn`, `Dev.analogNoteOff`, `Dev.releaseAxis` (`Hidi/Engine.lean`).
  `anaTr` tracks, per identifier (axis code, negative?), the (note, channel) that was switched on.
  Thresholds are tested in the order `vk ≤ -1/2`, then `-c49 < vk ∧ vk < c49`, then `1/2 ≤ vk`;
  anything else (the hysteresis bands) changes nothing.
-/
import Hidi
import HidiProofs.AxisKeyLemmas
namespace Hidi.Props.C08
open Hidi Hidi.Spec Hidi.AxisKeyLemmas

/-- the position the thresholds are applied to: an axis that cannot go negative is re-centred first -/
abbrev vk (canNeg : Bool) (v0 : Rat) : Rat := if canNeg then v0 else fsub (fmul v0 2) 1

/-! ### the four branches of `absKey` without the `let`s -/

/-- first half of the negative branch: switch the negative key on unless unidirectional or already tracked -/
def negOn (d : Dev) (a : Analog) (code : Code) : Dev × List Out :=
  if a.bidir ∧ (alookup (code, true) d.anaTr).isNone then d.analogNoteOn (code, true) a.noteNeg a.chOffNeg else (d, [])

/-- first half of the positive branch -/
def posOn (d : Dev) (a : Analog) (code : Code) : Dev × List Out :=
  if (alookup (code, false) d.anaTr).isNone then d.analogNoteOn (code, false) a.note a.chOff else (d, [])

theorem absKey_neg (d : Dev) (a : Analog) (code : Code) (canNeg : Bool) (v0 : Rat) (h : vk canNeg v0 ≤ -1/2) :
    d.absKey a code canNeg v0 =
      (((negOn d a code).1.analogNoteOff (code, false)).1,
       (negOn d a code).2 ++ ((negOn d a code).1.analogNoteOff (code, false)).2) := by
  unfold Dev.absKey
  simp only [vk] at h
  simp only [if_pos h]
  rfl

theorem absKey_centre (d : Dev) (a : Analog) (code : Code) (canNeg : Bool) (v0 : Rat)
    (hn : ¬ vk canNeg v0 ≤ -1/2) (h : -c49 < vk canNeg v0 ∧ vk canNeg v0 < c49) :
    d.absKey a code canNeg v0 = d.releaseAxis code := by
  unfold Dev.absKey
  simp only [vk] at h hn
  simp only [if_neg hn, if_pos h]
  rfl

theorem absKey_pos (d : Dev) (a : Analog) (code : Code) (canNeg : Bool) (v0 : Rat)
    (hn : ¬ vk canNeg v0 ≤ -1/2) (h : 1/2 ≤ vk canNeg v0) :
    d.absKey a code canNeg v0 =
      (((posOn d a code).1.analogNoteOff (code, true)).1,
       (posOn d a code).2 ++ ((posOn d a code).1.analogNoteOff (code, true)).2) := by
  have hc : ¬ (-c49 < vk canNeg v0 ∧ vk canNeg v0 < c49) := by
    rintro ⟨_, h2⟩
    exact absurd (lt_of_lt_of_le h2 c49_le_half) (not_lt.mpr h)
  unfold Dev.absKey
  simp only [vk] at h hn hc
  simp only [if_neg hn, if_neg hc, if_pos h]
  rfl

theorem absKey_band (d : Dev) (a : Analog) (code : Code) (canNeg : Bool) (v0 : Rat)
    (hn : ¬ vk canNeg v0 ≤ -1/2) (hc : ¬ (-c49 < vk canNeg v0 ∧ vk canNeg v0 < c49)) (hp : ¬ 1/2 ≤ vk canNeg v0) :
    d.absKey a code canNeg v0 = (d, []) := by
  unfold Dev.absKey
  simp only [vk] at hp hn hc
  simp only [if_neg hn, if_neg hc, if_neg hp]

/-! ### `negOn` / `posOn` -/

theorem negOn_frame (d : Dev) (a : Analog) (code : Code) :
    (negOn d a code).1 = { d with anaTr := (negOn d a code).1.anaTr } := by
  unfold negOn; split
  · exact on_frame _ _ _ _
  · rfl

theorem posOn_frame (d : Dev) (a : Analog) (code : Code) :
    (posOn d a code).1 = { d with anaTr := (posOn d a code).1.anaTr } := by
  unfold posOn; split
  · exact on_frame _ _ _ _
  · rfl

theorem negOn_lookup_ne (d : Dev) (a : Analog) (code : Code) {id : Code × Bool} (h : id ≠ (code, true)) :
    alookup id (negOn d a code).1.anaTr = alookup id d.anaTr := by
  unfold negOn; split
  · exact on_lookup_ne d h _ _
  · rfl

theorem posOn_lookup_ne (d : Dev) (a : Analog) (code : Code) {id : Code × Bool} (h : id ≠ (code, false)) :
    alookup id (posOn d a code).1.anaTr = alookup id d.anaTr := by
  unfold posOn; split
  · exact on_lookup_ne d h _ _
  · rfl

theorem negOn_out_mem (d : Dev) (a : Analog) (code : Code) (o : Out) (h : o ∈ (negOn d a code).2) :
    ∃ ch n, o = noteEvent stNoteOn ch n 64 := by
  unfold negOn at h; split at h
  · exact on_out_mem _ _ _ _ _ h
  · simp at h

theorem posOn_out_mem (d : Dev) (a : Analog) (code : Code) (o : Out) (h : o ∈ (posOn d a code).2) :
    ∃ ch n, o = noteEvent stNoteOn ch n 64 := by
  unfold posOn at h; split at h
  · exact on_out_mem _ _ _ _ _ h
  · simp at h

theorem posOn_tracked (d : Dev) (a : Analog) (code : Code) (p : Nat × Nat)
    (h : alookup (code, false) d.anaTr = some p) : posOn d a code = (d, []) := by
  unfold posOn; simp [h]

theorem negOn_tracked (d : Dev) (a : Analog) (code : Code) (p : Nat × Nat)
    (h : alookup (code, true) d.anaTr = some p) : negOn d a code = (d, []) := by
  unfold negOn; simp [h]

theorem negOn_unidir (d : Dev) (a : Analog) (code : Code) (h : a.bidir = false) : negOn d a code = (d, []) := by
  unfold negOn; simp [h]

theorem posOn_fresh (d : Dev) (a : Analog) (code : Code) (h : alookup (code, false) d.anaTr = none) :
    posOn d a code = d.analogNoteOn (code, false) a.note a.chOff := by
  unfold posOn; simp [h]

theorem negOn_fresh (d : Dev) (a : Analog) (code : Code) (hb : a.bidir = true)
    (h : alookup (code, true) d.anaTr = none) :
    negOn d a code = d.analogNoteOn (code, true) a.noteNeg a.chOffNeg := by
  unfold negOn; simp [h, hb]

/-- a Note Off of the emulation is no Note On with velocity 64 -/
theorem off_no_on64 (d : Dev) (id : Code × Bool) : ∀ o ∈ (d.analogNoteOff id).2, ∀ ch n, o ≠ noteEvent stNoteOn ch n 64 := by
  intro o ho ch n
  obtain ⟨n', ch', _, rfl⟩ := off_out_mem d id o ho
  exact noteOff_ne_noteOn _ _ _ _ _ (by decide)

/-! ### the theorems -/

/-- positive deflection: the negative identifier is not tracked afterwards; the positive identifier, if it was not
    tracked, becomes tracked with the transposed note exactly when that note is in 0..127 (with the Note On in the
    output); if it was tracked it stays as it was and there is no second Note On (once per excursion) -/
theorem C08_pos (d : Dev) (a : Analog) (code : Code) (canNeg : Bool) (v0 : Rat)
    (h : 1/2 ≤ vk canNeg v0) (hn : ¬ vk canNeg v0 ≤ -1/2) :
    let r := d.absKey a code canNeg v0
    (alookup (code, true) r.1.anaTr = none) ∧
    (alookup (code, false) d.anaTr = none → 0 ≤ d.transposed a.note → d.transposed a.note ≤ 127 →
        alookup (code, false) r.1.anaTr = some ((d.transposed a.note).toNat, chanOf d.channel a.chOff) ∧
        noteEvent stNoteOn (chanOf d.channel a.chOff) (d.transposed a.note).toNat 64 ∈ r.2) ∧
    (alookup (code, false) d.anaTr = none → (d.transposed a.note < 0 ∨ 127 < d.transposed a.note) →
        alookup (code, false) r.1.anaTr = none ∧ ∀ o ∈ r.2, ∀ ch n, o ≠ noteEvent stNoteOn ch n 64) ∧
    (∀ p, alookup (code, false) d.anaTr = some p →
        alookup (code, false) r.1.anaTr = some p ∧ ∀ o ∈ r.2, ∀ ch n, o ≠ noteEvent stNoteOn ch n 64) := by
  intro r
  have hr : r = _ := absKey_pos d a code canNeg v0 hn h
  rw [hr]
  refine ⟨off_lookup_self _ _, ?_, ?_, ?_⟩
  · intro hf h0 h1
    have ho := on_in_range d (code, false) a.note a.chOff h0 h1
    simp only [off_lookup_ne _ (pos_ne_neg code), posOn_fresh d a code hf, ho.1, ho.2, true_and]
    simp
  · intro hf hr
    simp only [off_lookup_ne _ (pos_ne_neg code), posOn_fresh d a code hf, on_out_of_range d _ _ _ hr, hf,
      List.nil_append, true_and]
    exact off_no_on64 _ _
  · intro p hp
    simp only [off_lookup_ne _ (pos_ne_neg code), posOn_tracked d a code p hp, hp, List.nil_append, true_and]
    exact off_no_on64 _ _

/-- negative deflection of a bidirectional entry: symmetric, with `a.noteNeg`, `a.chOffNeg` -/
theorem C08_neg (d : Dev) (a : Analog) (code : Code) (canNeg : Bool) (v0 : Rat)
    (h : vk canNeg v0 ≤ -1/2) (hb : a.bidir = true) :
    let r := d.absKey a code canNeg v0
    (alookup (code, false) r.1.anaTr = none) ∧
    (alookup (code, true) d.anaTr = none → 0 ≤ d.transposed a.noteNeg → d.transposed a.noteNeg ≤ 127 →
        alookup (code, true) r.1.anaTr = some ((d.transposed a.noteNeg).toNat, chanOf d.channel a.chOffNeg) ∧
        noteEvent stNoteOn (chanOf d.channel a.chOffNeg) (d.transposed a.noteNeg).toNat 64 ∈ r.2) ∧
    (alookup (code, true) d.anaTr = none → (d.transposed a.noteNeg < 0 ∨ 127 < d.transposed a.noteNeg) →
        alookup (code, true) r.1.anaTr = none ∧ ∀ o ∈ r.2, ∀ ch n, o ≠ noteEvent stNoteOn ch n 64) ∧
    (∀ p, alookup (code, true) d.anaTr = some p →
        alookup (code, true) r.1.anaTr = some p ∧ ∀ o ∈ r.2, ∀ ch n, o ≠ noteEvent stNoteOn ch n 64) := by
  intro r
  have hr : r = _ := absKey_neg d a code canNeg v0 h
  rw [hr]
  refine ⟨off_lookup_self _ _, ?_, ?_, ?_⟩
  · intro hf h0 h1
    have ho := on_in_range d (code, true) a.noteNeg a.chOffNeg h0 h1
    simp only [off_lookup_ne _ (neg_ne_pos code), negOn_fresh d a code hb hf, ho.1, ho.2, true_and]
    simp
  · intro hf hr
    simp only [off_lookup_ne _ (neg_ne_pos code), negOn_fresh d a code hb hf, on_out_of_range d _ _ _ hr, hf,
      List.nil_append, true_and]
    exact off_no_on64 _ _
  · intro p hp
    simp only [off_lookup_ne _ (neg_ne_pos code), negOn_tracked d a code p hp, hp, List.nil_append, true_and]
    exact off_no_on64 _ _

/-- negative deflection of a unidirectional entry is silent: the event is exactly the release of the positive
    identifier — no Note On (with a velocity other than 0) at all, the negative identifier is left untouched
    and the positive one is released -/
theorem C08_silent (d : Dev) (a : Analog) (code : Code) (canNeg : Bool) (v0 : Rat)
    (h : vk canNeg v0 ≤ -1/2) (hb : a.bidir = false) :
    let r := d.absKey a code canNeg v0
    r = d.analogNoteOff (code, false) ∧
    (∀ o ∈ r.2, ∀ ch n v, v ≠ 0 → o ≠ noteEvent stNoteOn ch n v) ∧
    alookup (code, true) r.1.anaTr = alookup (code, true) d.anaTr ∧
    alookup (code, false) r.1.anaTr = none := by
  intro r
  have hr : r = d.analogNoteOff (code, false) := by
    show d.absKey a code canNeg v0 = _
    rw [absKey_neg d a code canNeg v0 h, negOn_unidir d a code hb]
    simp
  rw [hr]
  refine ⟨rfl, ?_, off_lookup_ne _ (neg_ne_pos code), off_lookup_self _ _⟩
  intro o ho ch n v hv
  obtain ⟨n', ch', _, rfl⟩ := off_out_mem d _ o ho
  exact noteOff_ne_noteOn _ _ _ _ _ hv

/-- return towards centre: the event is `releaseAxis`; both identifiers are released -/
theorem C08_centre (d : Dev) (a : Analog) (code : Code) (canNeg : Bool) (v0 : Rat)
    (h : -c49 < vk canNeg v0 ∧ vk canNeg v0 < c49) (hn : ¬ vk canNeg v0 ≤ -1/2) :
    let r := d.absKey a code canNeg v0
    alookup (code, false) r.1.anaTr = none ∧ alookup (code, true) r.1.anaTr = none ∧ r = d.releaseAxis code := by
  intro r
  have hr : r = d.releaseAxis code := absKey_centre d a code canNeg v0 hn h
  rw [hr, releaseAxis_eq]
  refine ⟨?_, off_lookup_self _ _, rfl⟩
  simp only
  rw [off_lookup_ne _ (pos_ne_neg code), off_lookup_self]

/-- the centre condition alone implies the negative branch is not taken (`c49 ≤ 1/2`) -/
theorem centre_not_neg (canNeg : Bool) (v0 : Rat) (h : -c49 < vk canNeg v0 ∧ vk canNeg v0 < c49) :
    ¬ vk canNeg v0 ≤ -1/2 := by
  intro hn
  have := c49_le_half
  have h1 := h.1
  linarith

/-- hysteresis bands `[c49, 1/2)` and `(-1/2, -c49]`: nothing happens -/
theorem C08_band (d : Dev) (a : Analog) (code : Code) (canNeg : Bool) (v0 : Rat)
    (h : (c49 ≤ vk canNeg v0 ∧ vk canNeg v0 < 1/2) ∨ (-1/2 < vk canNeg v0 ∧ vk canNeg v0 ≤ -c49)) :
    d.absKey a code canNeg v0 = (d, []) := by
  have hp := c49_pos
  apply absKey_band
  · rcases h with h | h <;> intro hn <;> linarith [h.1, h.2]
  · rcases h with h | h <;> rintro ⟨h1, h2⟩ <;> linarith [h.1, h.2]
  · rcases h with h | h <;> intro hn <;> linarith [h.1, h.2]

/-- pairing: every message the emulation emits is a Note On (velocity 64), or the Note Off of exactly what the
    tracker held for one of the two identifiers before the event -/
theorem C08_pairing (d : Dev) (a : Analog) (code : Code) (canNeg : Bool) (v0 : Rat) :
    ∀ o ∈ (d.absKey a code canNeg v0).2, (∃ ch n, o = noteEvent stNoteOn ch n 64) ∨
      (∃ id ∈ [((code, false) : Code × Bool), (code, true)], ∃ n ch,
        alookup id d.anaTr = some (n, ch) ∧ o = noteEvent stNoteOff ch n 0) := by
  intro o ho
  by_cases hn : vk canNeg v0 ≤ -1/2
  · rw [absKey_neg d a code canNeg v0 hn] at ho
    simp only [List.mem_append] at ho
    rcases ho with ho | ho
    · exact Or.inl (negOn_out_mem d a code o ho)
    · obtain ⟨n, ch, h1, h2⟩ := off_out_mem _ _ _ ho
      rw [negOn_lookup_ne d a code (pos_ne_neg code)] at h1
      exact Or.inr ⟨_, by simp, n, ch, h1, h2⟩
  · by_cases hc : -c49 < vk canNeg v0 ∧ vk canNeg v0 < c49
    · rw [absKey_centre d a code canNeg v0 hn hc] at ho
      exact Or.inr (releaseAxis_out_mem d code o ho)
    · by_cases hp : 1/2 ≤ vk canNeg v0
      · rw [absKey_pos d a code canNeg v0 hn hp] at ho
        simp only [List.mem_append] at ho
        rcases ho with ho | ho
        · exact Or.inl (posOn_out_mem d a code o ho)
        · obtain ⟨n, ch, h1, h2⟩ := off_out_mem _ _ _ ho
          rw [posOn_lookup_ne d a code (neg_ne_pos code)] at h1
          exact Or.inr ⟨_, by simp, n, ch, h1, h2⟩
      · rw [absKey_band d a code canNeg v0 hn hc hp] at ho
        simp at ho

/-- never both directions at once -/
def NotBoth (code : Code) (d : Dev) : Prop :=
  ¬ (alookup (code, false) d.anaTr ≠ none ∧ alookup (code, true) d.anaTr ≠ none)

theorem C08_not_both_init (code : Code) (cfg : Config) : NotBoth code (Dev.init cfg) := by
  intro h; exact h.1 rfl

/-- `NotBoth` is an invariant of `absKey`: outside the hysteresis bands one of the two identifiers is released,
    inside nothing changes -/
theorem C08_not_both (d : Dev) (a : Analog) (code : Code) (canNeg : Bool) (v0 : Rat) (hinv : NotBoth code d) :
    NotBoth code (d.absKey a code canNeg v0).1 := by
  by_cases hn : vk canNeg v0 ≤ -1/2
  · rw [absKey_neg d a code canNeg v0 hn]
    intro h; exact h.1 (off_lookup_self _ _)
  · by_cases hc : -c49 < vk canNeg v0 ∧ vk canNeg v0 < c49
    · intro h; exact h.2 (C08_centre d a code canNeg v0 hc hn).2.1
    · by_cases hp : 1/2 ≤ vk canNeg v0
      · rw [absKey_pos d a code canNeg v0 hn hp]
        intro h; exact h.2 (off_lookup_self _ _)
      · rw [absKey_band d a code canNeg v0 hn hc hp]; exact hinv

/-- outside the hysteresis bands `NotBoth` holds after the event whatever was tracked before -/
theorem C08_not_both_outside (d : Dev) (a : Analog) (code : Code) (canNeg : Bool) (v0 : Rat)
    (h : vk canNeg v0 ≤ -1/2 ∨ (-c49 < vk canNeg v0 ∧ vk canNeg v0 < c49) ∨ 1/2 ≤ vk canNeg v0) :
    NotBoth code (d.absKey a code canNeg v0).1 := by
  by_cases hn : vk canNeg v0 ≤ -1/2
  · rw [absKey_neg d a code canNeg v0 hn]
    intro h; exact h.1 (off_lookup_self _ _)
  · by_cases hc : -c49 < vk canNeg v0 ∧ vk canNeg v0 < c49
    · intro h; exact h.2 (C08_centre d a code canNeg v0 hc hn).2.1
    · have hp : 1/2 ≤ vk canNeg v0 := by
        rcases h with h | h | h
        · exact absurd h hn
        · exact absurd h hc
        · exact h
      rw [absKey_pos d a code canNeg v0 hn hp]
      intro h; exact h.2 (off_lookup_self _ _)

/-- the emulation only ever touches its own two identifiers, and never changes anything else of the device -/
theorem C08_frame_strong (d : Dev) (a : Analog) (code : Code) (canNeg : Bool) (v0 : Rat) :
    (d.absKey a code canNeg v0).1 = { d with anaTr := (d.absKey a code canNeg v0).1.anaTr } ∧
    ∀ id, id ≠ (code, false) → id ≠ (code, true) →
      alookup id (d.absKey a code canNeg v0).1.anaTr = alookup id d.anaTr := by
  by_cases hn : vk canNeg v0 ≤ -1/2
  · rw [absKey_neg d a code canNeg v0 hn]
    constructor
    · simp only
      rw [off_frame, negOn_frame]
    · intro id h1 h2
      rw [off_lookup_ne _ h1, negOn_lookup_ne d a code h2]
  · by_cases hc : -c49 < vk canNeg v0 ∧ vk canNeg v0 < c49
    · rw [absKey_centre d a code canNeg v0 hn hc]
      constructor
      · exact releaseAxis_frame d code
      · intro id h1 h2
        rw [releaseAxis_eq]
        simp only
        rw [off_lookup_ne _ h2, off_lookup_ne _ h1]
    · by_cases hp : 1/2 ≤ vk canNeg v0
      · rw [absKey_pos d a code canNeg v0 hn hp]
        constructor
        · simp only
          rw [off_frame, posOn_frame]
        · intro id h1 h2
          rw [off_lookup_ne _ h2, posOn_lookup_ne d a code h1]
      · rw [absKey_band d a code canNeg v0 hn hc hp]
        exact ⟨rfl, fun _ _ _ => rfl⟩

/-- the emulation only ever touches its own two identifiers, and never changes
    octave/semitone/channel/mapping/noteTr/counter -/
theorem C08_frame (d : Dev) (a : Analog) (code : Code) (canNeg : Bool) (v0 : Rat) :
    let r := d.absKey a code canNeg v0
    r.1.octave = d.octave ∧ r.1.semitone = d.semitone ∧ r.1.channel = d.channel ∧ r.1.mapping = d.mapping ∧
    r.1.noteTr = d.noteTr ∧ r.1.counter = d.counter ∧
    ∀ id, id ≠ (code, false) → id ≠ (code, true) → alookup id r.1.anaTr = alookup id d.anaTr := by
  intro r
  obtain ⟨h1, h2⟩ := C08_frame_strong d a code canNeg v0
  refine ⟨?_, ?_, ?_, ?_, ?_, ?_, h2⟩ <;> (simp only [r]; rw [h1])

/-- `releaseAxis` (mapping changed under a deflected axis, or return to centre) releases both identifiers, with
    exactly their tracked Note Offs (positive first), and touches nothing else -/
theorem C08_release_axis (d : Dev) (code : Code) :
    alookup (code, false) (d.releaseAxis code).1.anaTr = none ∧
    alookup (code, true) (d.releaseAxis code).1.anaTr = none ∧
    (∀ o ∈ (d.releaseAxis code).2, ∃ id ∈ [((code, false) : Code × Bool), (code, true)], ∃ n ch,
        alookup id d.anaTr = some (n, ch) ∧ o = noteEvent stNoteOff ch n 0) ∧
    (d.releaseAxis code).2 =
      (match alookup (code, false) d.anaTr with
       | some (n, ch) => [noteEvent stNoteOff ch n 0]
       | none => []) ++
      (match alookup (code, true) d.anaTr with
       | some (n, ch) => [noteEvent stNoteOff ch n 0]
       | none => []) ∧
    (d.releaseAxis code).1 = { d with anaTr := (d.releaseAxis code).1.anaTr } ∧
    (∀ id, id ≠ (code, false) → id ≠ (code, true) →
      alookup id (d.releaseAxis code).1.anaTr = alookup id d.anaTr) := by
  refine ⟨?_, ?_, releaseAxis_out_mem d code, releaseAxis_out d code, releaseAxis_frame d code, ?_⟩
  · rw [releaseAxis_eq]; simp only
    rw [off_lookup_ne _ (pos_ne_neg code), off_lookup_self]
  · rw [releaseAxis_eq]; exact off_lookup_self _ _
  · intro id h1 h2
    rw [releaseAxis_eq]; simp only
    rw [off_lookup_ne _ h2, off_lookup_ne _ h1]

/-! ### in the vocabulary of the receiver -/

/-- everything the tracker holds is a real (note, channel) -/
def TrWF (d : Dev) : Prop := ∀ id n ch, alookup id d.anaTr = some (n, ch) → n ≤ 127 ∧ ch < 16

theorem C08_wf_init (cfg : Config) : TrWF (Dev.init cfg) := by
  intro id n ch h; simp [Dev.init, alookup] at h

theorem off_wf (d : Dev) (id : Code × Bool) (h : TrWF d) : TrWF (d.analogNoteOff id).1 :=
  fun id' n ch hl => h id' n ch (off_lookup_some d id id' _ hl)

theorem on_wf (d : Dev) (id : Code × Bool) (note off : Nat) (h : TrWF d) : TrWF (d.analogNoteOn id note off).1 := by
  intro id' n ch hl
  rcases on_lookup_some d id id' note off n ch hl with h1 | h1
  · exact h id' n ch h1
  · exact h1

theorem C08_wf_release_axis (d : Dev) (code : Code) (h : TrWF d) : TrWF (d.releaseAxis code).1 := by
  rw [releaseAxis_eq]; exact off_wf _ _ (off_wf _ _ h)

/-- the tracker only ever holds real (note, channel) pairs -/
theorem C08_wf (d : Dev) (a : Analog) (code : Code) (canNeg : Bool) (v0 : Rat) (h : TrWF d) :
    TrWF (d.absKey a code canNeg v0).1 := by
  by_cases hn : vk canNeg v0 ≤ -1/2
  · rw [absKey_neg d a code canNeg v0 hn]
    apply off_wf
    unfold negOn; split
    · exact on_wf _ _ _ _ h
    · exact h
  · by_cases hc : -c49 < vk canNeg v0 ∧ vk canNeg v0 < c49
    · rw [absKey_centre d a code canNeg v0 hn hc]; exact C08_wf_release_axis d code h
    · by_cases hp : 1/2 ≤ vk canNeg v0
      · rw [absKey_pos d a code canNeg v0 hn hp]
        apply off_wf
        unfold posOn; split
        · exact on_wf _ _ _ _ h
        · exact h
      · rw [absKey_band d a code canNeg v0 hn hc hp]; exact h

/-- pairing, as the receiver sees it: every message of the emulation is `noteOn64` on a real channel with a real
    note, or the `noteOffMsg` of exactly what the tracker held for one of the two identifiers -/
theorem C08_pairing_recv (d : Dev) (a : Analog) (code : Code) (canNeg : Bool) (v0 : Rat) (hwf : TrWF d) :
    ∀ o ∈ (d.absKey a code canNeg v0).2, (∃ ch n, ch < 16 ∧ n ≤ 127 ∧ o = noteOn64 ch n) ∨
      (∃ id ∈ [((code, false) : Code × Bool), (code, true)], ∃ n ch,
        alookup id d.anaTr = some (n, ch) ∧ o = noteOffMsg ch n) := by
  have offCase : ∀ o, (∃ id ∈ [((code, false) : Code × Bool), (code, true)], ∃ n ch,
        alookup id d.anaTr = some (n, ch) ∧ o = noteEvent stNoteOff ch n 0) →
      (∃ id ∈ [((code, false) : Code × Bool), (code, true)], ∃ n ch,
        alookup id d.anaTr = some (n, ch) ∧ o = noteOffMsg ch n) := by
    rintro o ⟨id, hid, n, ch, h1, h2⟩
    exact ⟨id, hid, n, ch, h1, by rw [h2, noteOff_eq_noteOffMsg (hwf id n ch h1).2]⟩
  have onCase : ∀ o, (∃ ch n, ch < 16 ∧ n ≤ 127 ∧ o = noteEvent stNoteOn ch n 64) →
      (∃ ch n, ch < 16 ∧ n ≤ 127 ∧ o = noteOn64 ch n) := by
    rintro o ⟨ch, n, hc, hn, rfl⟩
    exact ⟨ch, n, hc, hn, noteOn_eq_noteOn64 hc n⟩
  intro o ho
  by_cases hn : vk canNeg v0 ≤ -1/2
  · rw [absKey_neg d a code canNeg v0 hn] at ho
    simp only [List.mem_append] at ho
    rcases ho with ho | ho
    · left; apply onCase
      unfold negOn at ho; split at ho
      · exact on_out_mem' _ _ _ _ _ ho
      · simp at ho
    · obtain ⟨n, ch, h1, h2⟩ := off_out_mem _ _ _ ho
      rw [negOn_lookup_ne d a code (pos_ne_neg code)] at h1
      exact Or.inr (offCase o ⟨_, by simp, n, ch, h1, h2⟩)
  · by_cases hc : -c49 < vk canNeg v0 ∧ vk canNeg v0 < c49
    · rw [absKey_centre d a code canNeg v0 hn hc] at ho
      exact Or.inr (offCase o (releaseAxis_out_mem d code o ho))
    · by_cases hp : 1/2 ≤ vk canNeg v0
      · rw [absKey_pos d a code canNeg v0 hn hp] at ho
        simp only [List.mem_append] at ho
        rcases ho with ho | ho
        · left; apply onCase
          unfold posOn at ho; split at ho
          · exact on_out_mem' _ _ _ _ _ ho
          · simp at ho
        · obtain ⟨n, ch, h1, h2⟩ := off_out_mem _ _ _ ho
          rw [posOn_lookup_ne d a code (neg_ne_pos code)] at h1
          exact Or.inr (offCase o ⟨_, by simp, n, ch, h1, h2⟩)
      · rw [absKey_band d a code canNeg v0 hn hc hp] at ho
        simp at ho

/-- at the receiver: a fresh positive deflection with an in-range note, nothing held for the negative identifier:
    the event is exactly one Note On and the note sounds afterwards -/
theorem C08_pos_sounds (d : Dev) (a : Analog) (code : Code) (canNeg : Bool) (v0 : Rat)
    (h : 1/2 ≤ vk canNeg v0) (hn : ¬ vk canNeg v0 ≤ -1/2)
    (hf : alookup (code, false) d.anaTr = none) (hg : alookup (code, true) d.anaTr = none)
    (h0 : 0 ≤ d.transposed a.note) (h1 : d.transposed a.note ≤ 127) (s : List (Nat × Nat)) :
    (d.absKey a code canNeg v0).2 = [noteOn64 (chanOf d.channel a.chOff) (d.transposed a.note).toNat] ∧
    (chanOf d.channel a.chOff, (d.transposed a.note).toNat) ∈ sounding s (d.absKey a code canNeg v0).2 := by
  have ho := on_in_range d (code, false) a.note a.chOff h0 h1
  have hout : (d.absKey a code canNeg v0).2 =
      [noteEvent stNoteOn (chanOf d.channel a.chOff) (d.transposed a.note).toNat 64] := by
    rw [absKey_pos d a code canNeg v0 hn h]
    simp only [posOn_fresh d a code hf, ho.2, off_out]
    rw [on_lookup_ne d (neg_ne_pos code), hg]
    rfl
  constructor
  · rw [hout, noteOn_eq_noteOn64 (chanOf_lt _ _)]
  · rw [hout]
    simp only [sounding, List.foldl_cons, List.foldl_nil, recv_noteOn64 (chanOf_lt _ _), mem_sinsert, true_or]

/-! ### non-vacuity -/

private def cfg0 : Config :=
  { maps := [], actions := [], exitSeq := [], mode := .off, defOct := 0, defSemi := 0, defCh := 1,
    defMap := 0, vel := 64, axes := [] }
private def a0 : Analog :=
  { kind := .key, cc := 0, ccNeg := 0, note := 60, noteNeg := 59, chOff := 0, chOffNeg := 0,
    act := .none, actNeg := .none, flip := false, bidir := true, dzCenter := false }

/-- the hypotheses of `C08_pos` are satisfiable: full positive deflection (`v0 = 1`) of a fresh device tracks
    (60, channel 0) for the positive identifier and sends its Note On -/
example : alookup (3, false) ((Dev.init cfg0).absKey a0 3 true 1).1.anaTr = some (60, 0) ∧
    noteOn64 0 60 ∈ ((Dev.init cfg0).absKey a0 3 true 1).2 := by
  have h := (C08_pos (Dev.init cfg0) a0 3 true 1 (by norm_num [vk]) (by norm_num [vk])).2.1 rfl (by decide) (by decide)
  have e1 : ((Dev.init cfg0).transposed a0.note).toNat = 60 := by decide
  have e2 : chanOf (Dev.init cfg0).channel a0.chOff = 0 := by decide
  rw [e1, e2, noteOn_eq_noteOn64 (by decide)] at h
  exact h

/-- the same by evaluation of the model in the kernel (no `native_decide`) -/
example : ((Dev.init cfg0).absKey a0 3 true 1).1.anaTr = [((3, false), (60, 0))] ∧
    ((Dev.init cfg0).absKey a0 3 true 1).2 = [noteOn64 0 60] := by decide +kernel

/-- full negative deflection then full positive deflection (no event near the centre in between): the negative key
    is released and the positive one pressed in the same event -/
example : (((Dev.init cfg0).absKey a0 3 true (-1)).1.absKey a0 3 true 1).2 = [noteOn64 0 60, noteOffMsg 0 59] ∧
    (((Dev.init cfg0).absKey a0 3 true (-1)).1.absKey a0 3 true 1).1.anaTr = [((3, false), (60, 0))] := by
  decide +kernel

/-- OBSERVATION (not a property of C08 as listed, recorded because the proofs expose it): in the positive branch the
    Note On precedes the Note Off of the negative identifier.  If both directions are configured with the SAME note
    and channel, a direct crossing emits Note On n, Note Off n — the receiver ends silent while the tracker holds n. -/
example :
    let a1 : Analog := { a0 with noteNeg := 60 }
    let d1 := ((Dev.init cfg0).absKey a1 3 true (-1)).1
    (d1.absKey a1 3 true 1).2 = [noteOn64 0 60, noteOffMsg 0 60] ∧
    sounding [(0, 60)] (d1.absKey a1 3 true 1).2 = [] ∧
    (d1.absKey a1 3 true 1).1.anaTr = [((3, false), (60, 0))] := by
  decide +kernel

end Hidi.Props.C08
