/-
  C17 on the regenerated code: the whole frame.  `Hidi/Gen/LedFrame.lean` is the translation of the frame computation of
  the LED refresh loop (tools/extract/ledframe.go: the statements between `d.eventProcessMutex.Lock()` and `UpdateLEDs`),
  and for every device state, LED layout, controller name and colour configuration it computes the model's `Led.frame`
  — the function `C17_refinement`, `C17_pitch_class`, `C17_action_key`, `C17_external` … are about.  `sc` stands for
  `shiftColor(·, 0)` (the HSV round trip of go-colorful), `cw cb cc` for the configured white / black / C colours.
-/
import HidiProofs.LedTie
import HidiProofs.Props.C17
namespace Hidi.Props.C17frame
open Hidi Hidi.Led Hidi.GoLite Hidi.Gen Hidi.LedTie Hidi.LedSpec

theorem C17_gen_frame_translated : Body.ledFrameTranslated = true := by decide

/-- regenerated frame = model frame, everywhere -/
theorem C17_gen_frame (d : Dev) (devName : String) (leds : List String) (sc : RGB → RGB) (cw cb cc : RGB) :
    Body.ledFrame (toG d) devName leds sc cw cb cc = frame true d devName leds (sc cw, sc cb, sc cc) :=
  ledFrame_eq d devName leds sc cw cb cc

/-- the refinement theorem on the regenerated frame: every LED shows `highlight` of its base colour -/
theorem C17_gen_refinement (d : Dev) (devName : String) (leds : List String) (sc : RGB → RGB) (cw cb cc : RGB) (m : Mapping)
    (hm : d.curMap = some m) :
    ∃ base l, frameBase true d devName leds (sc cw, sc cb, sc cc) m = .ok base ∧
      Body.ledFrame (toG d) devName leds sc cw cb cc = .ok l ∧ base.length = leds.length ∧ l.length = leds.length ∧
      ∀ i (hi : i < base.length), l[i]? = some (highlight d leds m base[i] i) := by
  rw [C17_gen_frame]
  exact C17.C17_refinement d devName leds (sc cw, sc cb, sc cc) m hm

end Hidi.Props.C17frame
