/-
  C03 — Collision modes.

  The specification is stated on *holders*: `holders tr (n, ch)` = number of held keys whose recorded pair is
  `(n, ch)` — a quantity of the history, not the device's counter.  `C03_counter_is_holders` is the refinement
  fact (the counter array of the device equals it in every reachable state); `C03_press` / `C03_release`
  give the exact output of a press / release in each of the four modes in terms of holders.
-/
import HidiProofs.KeyHistories
import HidiProofs.Props.C02
namespace Hidi.Props.C03
open Hidi Hidi.Spec Hidi.EngineSim Hidi.KeyHist

theorem C03_monitor (cfg : Config) (evs : List Ev) (disc : Bool)
    (hacc : Accepted cfg = true) (hk : evs.all keyOnly = true) :
    failsOf "C03" (checkAll (modelTrace cfg evs disc)) = [] :=
  no_fails_of "C03" (by decide) cfg evs disc hacc hk

/-- **refinement**: after every history in the quantifier the device's counter for (channel, note) is the number
    of held keys whose recorded pair is that (note, channel); recorded keys are distinct -/
theorem C03_counter_is_holders (cfg : Config) (evs : List Ev) (hacc : Accepted cfg = true)
    (hk : evs.all keyOnly = true) (hd : Disciplined cfg evs) :
    let d := ((Dev.init cfg).run evs).1
    (akeys d.noteTr).Nodup ∧ ∀ ch n, d.count ch n = (holders d.noteTr (n, ch) : Int) := by
  intro d
  have hinv := final_inv hacc hk
  have hc := (hinv.okp hd).core
  rw [modelSteps_final] at hc
  exact ⟨hc.nodup, hc.cnt⟩

/-- the messages of a press that resolves to `(n, ch)` with velocity `v` when `h` keys already hold that pair -/
def pressSpec (mode : Collision) (h ch n v : Nat) : List Out :=
  match mode with
  | .off | .retrigger => [noteOnMsg ch n v]
  | .noRepeat => if h = 0 then [noteOnMsg ch n v] else []
  | .interrupt => if h = 0 then [noteOnMsg ch n v] else [noteOffMsg ch n, noteOnMsg ch n v]

/-- the messages of a release of a key recorded as `(n, ch)` when `h ≥ 1` keys (incl. this one) hold that pair -/
def releaseSpec (mode : Collision) (h ch n : Nat) : List Out :=
  match mode with
  | .off => [noteOffMsg ch n]
  | _ => if h = 1 then [noteOffMsg ch n] else []

/-- **press**: `off` / `retrigger` always Note On; `no_repeat` only for the first holder; `interrupt` Note Off then
    Note On when already held.  For every state whose counter equals the holders (every reachable one). -/
theorem C03_press {cfg : Config} {d : Dev} (hd : DInv cfg d)
    (hcnt : ∀ ch n, d.count ch n = (holders d.noteTr (n, ch) : Int))
    (sub : Sub) (code : Code) (hna : alookup code cfg.actions = none) (hsw : (kt d code 1).exitComplete = false) :
    (d.handleKey sub code 1).2 =
      match resolve cfg (StObs.ofDev d) (u8 cfg.vel) sub code with
      | none => []
      | some (n, ch, v) => pressSpec cfg.mode (holders d.noteTr (n, ch)) ch n v := by
  rw [handleKey_eq hd, hna]
  simp only [hsw, Bool.false_eq_true, and_false, if_false, if_true]
  rw [noteOn_eq (kt_dinv hd code 1), ofDev_kt]
  have h9 := (kt_frame d code 1).2.2.2.2.2.2.2.2.1
  cases resolve cfg (StObs.ofDev d) (u8 cfg.vel) sub code with
  | none => rfl
  | some r =>
    obtain ⟨n, ch, v⟩ := r
    simp only
    have : (kt d code 1).count ch n = (holders d.noteTr (n, ch) : Int) := by
      rw [← hcnt]; simp only [Dev.count, h9]
    rw [pressOuts_spec cfg.mode _ _ this]
    rfl

/-- **release**: `off` always Note Off; the managed modes only when this is the last holder -/
theorem C03_release {cfg : Config} {d : Dev} (hd : DInv cfg d)
    (hcnt : ∀ ch n, d.count ch n = (holders d.noteTr (n, ch) : Int))
    (sub : Sub) (code : Code) (hna : alookup code cfg.actions = none) :
    (d.handleKey sub code 0).2 =
      match alookup code d.noteTr with
      | none => []
      | some (n, ch) => releaseSpec cfg.mode (holders d.noteTr (n, ch)) ch n := by
  rw [C02.C02_release_pinned hd sub code hna]
  cases alookup code d.noteTr with
  | none => rfl
  | some q =>
    obtain ⟨n, ch⟩ := q
    simp only
    rw [releaseOuts_spec cfg.mode _ _ (hcnt ch n)]
    rfl

/-- consequence ("exactly one Note Off, when the last key is released"): in a managed mode a release is silent
    iff another key still holds the pitch -/
theorem C03_last_release_only {cfg : Config} {d : Dev} (hd : DInv cfg d)
    (hcnt : ∀ ch n, d.count ch n = (holders d.noteTr (n, ch) : Int))
    (sub : Sub) (code : Code) (hna : alookup code cfg.actions = none) (hm : cfg.mode ≠ .off)
    {n ch : Nat} (hl : alookup code d.noteTr = some (n, ch)) :
    (d.handleKey sub code 0).2 = if holders d.noteTr (n, ch) = 1 then [noteOffMsg ch n] else [] := by
  rw [C03_release hd hcnt sub code hna, hl]
  cases hmode : cfg.mode <;> simp_all [releaseSpec]

/-! ### non-vacuity: two keys on one pitch in `interrupt` mode -/

def exCfg : Config :=
  { maps := [{ name := "Piano", midi := [(("", 30), ⟨60, 0⟩), (("", 31), ⟨60, 0⟩)], analog := [], dz := [], defDz := [] }],
    actions := [], exitSeq := [], mode := .interrupt, defOct := 0, defSemi := 0, defCh := 1,
    defMap := 0, vel := 64, axes := [] }

example : ((Dev.init exCfg).run [.key "" 30 1, .key "" 31 1, .key "" 30 0, .key "" 31 0]).2 =
    [[noteOnMsg 0 60 64], [noteOffMsg 0 60, noteOnMsg 0 60 64], [], [noteOffMsg 0 60]] := by decide
example : Disciplined exCfg [.key "" 30 1, .key "" 31 1, .key "" 30 0, .key "" 31 0] := by
  unfold Disciplined; decide

end Hidi.Props.C03
