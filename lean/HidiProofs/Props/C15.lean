/-
  C15 — MIDI transport: in order, exactly once; device removal always completes.
  Theorems about the transition systems of `Hidi.Fan`.
-/
import Hidi.Fan
import Hidi.Gen.Tables
namespace Hidi.Props.C15
open Hidi Hidi.Fan

/-- the source-dependent parameter of the fan-out model, regenerated from fan.go on every run: the broadcast send is
    one case of a `select` whose other case is a per-output signal -/
theorem C15_source_facts : Gen.fanSendGuarded = true := by decide

def init (guarded : Bool) (cap : Nat) : St := { guarded := guarded, cap := cap }

/-- the schedule that wedges the unguarded fan-out: one consumer that never reads, two messages, then its removal -/
def wedge : List Step := [.spawn, .feed 1, .take, .send, .unlock, .feed 2, .take, .callDespawn 0]

/-- **the unguarded fan-out can block a removal forever**: after `wedge` the dispatcher holds the mutex, cannot send
    (buffer full), and nothing but a step of the very consumer that stopped reading can change that -/
theorem C15_despawn_blocks_unguarded :
    let s := run (init false 1) wedge
    s.inflight = some (2, [0]) ∧ s.pendingDespawn = [0] ∧ enabled s (.despawn 0) = false ∧
    dispatcherStep s = none ∧ enabled s .spawn = false := by decide

/-- the same schedule with the guarded send: the dispatcher skips the leaving output, unlocks, and the removal returns -/
theorem C15_despawn_completes_on_wedge :
    let s := settleAll (run (init true 1) wedge)
    s.inflight = none ∧ enabled s (.despawn 0) = true ∧ (step s (.despawn 0)).pendingDespawn = [] := by decide

end Hidi.Props.C15
