/-
  C15 — MIDI transport: in order, exactly once; device removal always completes.
  Theorems about the transition systems of `Hidi.Fan`.
-/
import HidiProofs.FanLemmas
import HidiProofs.FanLive
import Hidi.Gen.Tables
namespace Hidi.Props.C15
open Hidi Hidi.Fan Hidi.FanLemmas Hidi.EngineSim

/-- the source-dependent parameter of the fan-out model, regenerated from fan.go on every run: the broadcast send is
    one case of a `select` whose other case is a per-output signal -/
theorem C15_source_facts : Gen.fanSendGuarded = true := by decide

def init (guarded : Bool) (cap : Nat) : St := { guarded := guarded, cap := cap }

/-- the schedule that wedges the unguarded fan-out: one consumer that never reads, two messages, then its removal -/
def wedge : List Step := [.spawn, .feed 1, .take, .send, .unlock, .feed 2, .take, .callDespawn 0]

/-- **the unguarded fan-out can block a removal forever**: after `wedge` the dispatcher holds the mutex, cannot send
    (buffer full), and nothing but a step of the very consumer that stopped reading can change that -/
theorem C15_despawn_blocks_unguarded :
    let s := run (init false 1) wedge
    s.inflight = some (2, [0]) ∧ s.pendingDespawn = [0] ∧ enabled s (.despawn 0) = false ∧
    dispatcherStep s = none ∧ enabled s .spawn = false := by decide

/-- the same schedule with the guarded send: the dispatcher skips the leaving output, unlocks, and the removal returns -/
theorem C15_despawn_completes_on_wedge :
    let s := settleAll (run (init true 1) wedge)
    s.inflight = none ∧ enabled s (.despawn 0) = true ∧ (step s (.despawn 0)).pendingDespawn = [] := by decide


/-! ### removal always completes -/

open Hidi.FanLive in
/-- **removal always completes, even if the removed consumer has stopped reading**: in every reachable state of the
    guarded fan-out in which `DespawnOutput(id)` is pending there is a schedule of at most `2·|outputs| + 5` steps, each
    enabled when it is taken, consisting only of steps of the dispatcher (send / unlock), of the removing caller (the
    despawn itself) and of receives by consumers that have NOT been told to leave — never a receive by `id`'s consumer or
    by any other output under removal — after which the call has returned.  (`helper_progress` is the stronger form: the
    measure decreases with every such step, whichever reachable state it is taken from.) -/
theorem C15_despawn_completes (cap : Nat) (hc : 0 < cap) (steps : List Step) (id : Nat) :
    let s := run (init true cap) steps
    id ∈ s.pendingDespawn →
    ∃ sched : List Step, sched.length ≤ 2 * s.outputs.length + 5 ∧ GoodSchedule id s sched ∧
      id ∉ (run s sched).pendingDespawn := by
  intro s hp
  have hi : LInv s := run_linv steps _ (linv_init true cap)
  have hinv : Inv s := run_inv steps _ (inv_init true cap)
  have hcap : 0 < s.cap := by rw [show s.cap = cap from run_cap steps _]; exact hc
  have hg : s.guarded = true := run_guarded steps _
  refine ⟨driveSteps id (2 * s.outputs.length + 5) s, driveSteps_length _ _ _, driveSteps_good id _ s hi hg hcap, ?_⟩
  rw [drive_is_run id _ s hi hcap]
  exact drive_completes id _ s hi hcap (measure_le s hinv)

/-- non-vacuity: the wedge schedule reaches a state with the removal pending and the dispatcher blocked on the very
    output being removed; the schedule of the theorem is `send` (skipping the leaving output), `unlock`, `despawn` -/
example : let s := run (init true 1) wedge
    0 ∈ s.pendingDespawn ∧ Hidi.FanLive.driveSteps 0 7 s = [.send, .unlock, .despawn 0] := by decide

/-! ### exactly once, in order, whatever the schedule -/

/-- **fan-out, every schedule**: for every output that has not been told to leave, what its consumer has been given
    (received ++ buffered) is exactly the block of the dispatch log from its spawn up to now — without the message in
    flight if the dispatcher has not reached this output yet.  No loss, no duplicate, no reordering; the statement for
    one output does not mention any other output, so attaching or detaching others cannot affect it. -/
theorem C15_fan_exactly_once (guarded : Bool) (cap : Nat) (steps : List Step) :
    let s := run (init guarded cap) steps
    ∀ id o, alookup id s.outputs = some o → o.leaving = false →
      o.got = (s.log.drop o.since).take (s.log.length - o.since - pendingBit s id) := by
  intro s id o hl hlv
  exact ((run_inv steps _ (inv_init guarded cap)).outs id o hl hlv).1

/-- when the dispatcher is idle every connected output has been given everything dispatched since it was spawned -/
theorem C15_fan_quiescent (guarded : Bool) (cap : Nat) (steps : List Step) :
    let s := run (init guarded cap) steps
    s.inflight = none → ∀ id o, alookup id s.outputs = some o → o.leaving = false → o.got = s.log.drop o.since := by
  intro s hq id o hl hlv
  have h := C15_fan_exactly_once guarded cap steps id o hl hlv
  have hb : pendingBit s id = 0 := by simp [pendingBit, todoOf, hq]
  rw [hb, Nat.sub_zero] at h
  rw [h]
  exact List.take_of_length_le (by simp)

/-- what a consumer receives is always a prefix of what it has been given: it receives in dispatch order -/
theorem C15_received_prefix (o : Output) : o.recvd <+: o.got := ⟨o.buf, rfl⟩

/-- output ids are never shared: one live output per id, in every reachable state -/
theorem C15_ids_distinct (guarded : Bool) (cap : Nat) (steps : List Step) :
    (akeys (run (init guarded cap) steps).outputs).Nodup :=
  (run_inv steps _ (inv_init guarded cap)).keys

/-! ### the output relay: every emitter's messages reach the port exactly once, in its emission order -/

def RInv (orig : List (List (Nat × Nat))) (r : Relay) : Prop :=
  r.todo.length = orig.length ∧
  ∀ i, i < orig.length →
    (∀ m ∈ r.todo.getD i [], m.1 = i) ∧
    (r.port ++ r.queue).filter (fun m => m.1 = i) ++ r.todo.getD i [] = orig.getD i []

theorem rstep_inv (orig : List (List (Nat × Nat))) (r : Relay) (x : RStep) (h : RInv orig r) : RInv orig (rstep r x) := by
  obtain ⟨hlen, hall⟩ := h
  cases x with
  | relay =>
    simp only [rstep]
    cases hq : r.queue with
    | nil => simp only; exact ⟨hlen, hall⟩
    | cons m q =>
      simp only
      refine ⟨hlen, fun i hi => ?_⟩
      obtain ⟨h1, h2⟩ := hall i hi
      refine ⟨h1, ?_⟩
      rw [hq] at h2
      simpa [List.append_assoc] using h2
  | emit j =>
    simp only [rstep]
    cases hj : r.todo[j]? with
    | none => simp only; exact ⟨hlen, hall⟩
    | some l =>
      cases l with
      | nil => simp only; exact ⟨hlen, hall⟩
      | cons m rest =>
        simp only
        split
        · have hjlt : j < r.todo.length := by
            by_cases hx : j < r.todo.length
            · exact hx
            · rw [List.getElem?_eq_none (by omega)] at hj; cases hj
          have hgetj : r.todo.getD j [] = m :: rest := by simp [List.getD, hj]
          refine ⟨by simp [hlen], fun i hi => ?_⟩
          obtain ⟨h1, h2⟩ := hall i hi
          by_cases hij : i = j
          · subst hij
            have hm : m.1 = i := h1 m (by rw [hgetj]; exact List.mem_cons_self)
            have hset : (r.todo.set i rest).getD i [] = rest := by
              simp [List.getD, List.getElem?_set, hjlt]
            rw [hset]
            refine ⟨fun x hx => h1 x (by rw [hgetj]; exact List.mem_cons_of_mem _ hx), ?_⟩
            rw [hgetj] at h2
            rw [← h2]
            simp [List.filter_append, hm, List.append_assoc]
          · have hset : (r.todo.set j rest).getD i [] = r.todo.getD i [] := by
              simp [List.getD, List.getElem?_set, Ne.symm hij]
            rw [hset]
            refine ⟨h1, ?_⟩
            have hm : m.1 = j := (hall j (by omega)).1 m (by rw [hgetj]; exact List.mem_cons_self)
            have hne : ¬ (m.1 = i) := by rw [hm]; exact fun e => hij e.symm
            rw [← h2]
            simp [List.filter_append, hne, List.append_assoc]
        · exact ⟨hlen, hall⟩

theorem rrun_inv (orig : List (List (Nat × Nat))) (xs : List RStep) : ∀ r, RInv orig r → RInv orig (rrun r xs) := by
  induction xs with
  | nil => intro r h; exact h
  | cons x xs ih => intro r h; exact ih _ (rstep_inv orig r x h)

/-- **relay, every schedule**: at any moment, for every emitter, what has reached the port or waits in the channel,
    restricted to that emitter's messages, followed by what it has not emitted yet, is exactly its programme — each
    message exactly once, in emission order, unaltered (messages tagged with their emitter) -/
theorem C15_relay_order (orig : List (List (Nat × Nat))) (cap : Nat)
    (htag : ∀ i, i < orig.length → ∀ m ∈ orig.getD i [], m.1 = i) (xs : List RStep) (i : Nat) (hi : i < orig.length) :
    let r := rrun { todo := orig, cap := cap } xs
    (r.port ++ r.queue).filter (fun m => m.1 = i) ++ r.todo.getD i [] = orig.getD i [] := by
  intro r
  have h0 : RInv orig { todo := orig, cap := cap } := ⟨rfl, fun j hj => ⟨htag j hj, by simp⟩⟩
  exact ((rrun_inv orig xs _ h0).2 i hi).2

/-- when everything has been emitted and relayed, the port has each emitter's programme as a subsequence in order -/
theorem C15_relay_complete (orig : List (List (Nat × Nat))) (cap : Nat)
    (htag : ∀ i, i < orig.length → ∀ m ∈ orig.getD i [], m.1 = i) (xs : List RStep) (i : Nat) (hi : i < orig.length) :
    let r := rrun { todo := orig, cap := cap } xs
    r.queue = [] → r.todo.getD i [] = [] → r.port.filter (fun m => m.1 = i) = orig.getD i [] := by
  intro r hq ht
  have := C15_relay_order orig cap htag xs i hi
  simp only [] at this
  rw [hq, ht] at this
  simpa using this

/-! ### non-vacuity -/

example : (run (init true 2) [.spawn, .feed 1, .feed 2, .take, .send, .unlock, .spawn, .take, .send, .send, .unlock,
    .consume 0, .consume 1]).outputs.map (fun p => (p.1, p.2.got)) = [(0, [1, 2]), (1, [2])] := by decide

example : (rrun { todo := [[(0, 1), (0, 2)], [(1, 1)]], cap := 1 } [.emit 0, .emit 1, .relay, .emit 1, .relay, .emit 0, .relay]).port =
    [(0, 1), (1, 1), (0, 2)] := by decide

/-! ### the input relay: what the consumer has received is always a prefix of what arrived, in arrival order -/

def IInv (orig : List Nat) (r : InRelay) : Prop := r.delivered ++ r.q2 ++ r.q1 ++ r.src = orig

theorem istep_inv (orig : List Nat) (r : InRelay) (x : IStep) (h : IInv orig r) : IInv orig (istep r x) := by
  unfold IInv at *
  cases x <;> simp only [istep]
  · split
    · split
      · rename_i m rest hs _
        simp only
        rw [← h, hs]; simp
      · exact h
    · exact h
  · split
    · split
      · rename_i m rest hs _
        simp only
        rw [← h, hs]; simp
      · exact h
    · exact h
  · split
    · rename_i m rest hs
      simp only
      rw [← h, hs]; simp
    · exact h

theorem irun_inv (orig : List Nat) (xs : List IStep) : ∀ r, IInv orig r → IInv orig (irun r xs) := by
  induction xs with
  | nil => intro r h; exact h
  | cons x xs ih => intro r h; exact ih _ (istep_inv orig r x h)

/-- **input direction, every schedule**: whatever the interleaving of arrivals, the internal hand-over and the consumer,
    the consumer has received a prefix of the arrival sequence — nothing lost, duplicated or reordered — and the rest is
    still queued in order -/
theorem C15_input_relay_order (msgs : List Nat) (c1 c2 : Nat) (xs : List IStep) :
    let r := irun { src := msgs, cap1 := c1, cap2 := c2 } xs
    r.delivered ++ r.q2 ++ r.q1 ++ r.src = msgs ∧ r.delivered <+: msgs := by
  intro r
  have h : IInv msgs r := irun_inv msgs xs _ (by simp [IInv])
  refine ⟨h, ?_⟩
  unfold IInv at h
  exact ⟨r.q2 ++ r.q1 ++ r.src, by rw [← h]; simp⟩

example : (irun { src := [1, 2, 3], cap1 := 1, cap2 := 1 } [.arrive, .arrive, .move, .arrive, .deliver, .move]).delivered = [1] := by
  decide

end Hidi.Props.C15
