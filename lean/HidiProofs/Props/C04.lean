/-
  C04 — Transposition, channel arithmetic and state actions.

  * `C04_resolve`       : what `Spec.resolve` is — base note + 12·octave + semitone in unbounded integers, channel
                          `(channel + offset) mod 16`, configured velocity, nothing outside 0..127;
  * `C04_press`         : a press of a mapped key emits exactly the Note On of that pair (modulo the collision rule
                          of C03) and nothing when out of range — the arithmetic of the device (`uint8` channel add,
                          `int` transposition) agrees with the unbounded formula in every reachable state;
  * `C04_unit_step`     : a single (unpaired) action moves its parameter by exactly one / saturates;
  * `C04_pair_reset`    : completing an up/down pair resets that parameter and applies nothing else;
  * `C04_bounds`        : channel stays in 0..15 (1–16), mapping inside the configured list, in every reachable state;
  * `C04_init`          : the configured defaults are the initial state;
  * `C04_monitor_*`     : the monitor evaluated on the implementation, on the model.

  Octave and semitone were `int8` in the code (the 128th `octave_up` wrapped to −128, `defaults.octave = 200` became −56);
  the repository keeps them in `int` now (`C04_source_facts`), the model adds in ℤ, and `C04_unit_step`, `C04_init` and
  `C04_monitor` hold without any range hypothesis.  `C04_wrap_witness_pre_fix` records what int8 did.
-/
import HidiProofs.KeyHistories
import HidiProofs.Props.C03
import Hidi.Gen.Tables
namespace Hidi.Props.C04
open Hidi Hidi.Spec Hidi.EngineSim Hidi.KeyHist

/-- the monitor evaluated on the implementation never fires on the model: no C04 failure (nor any other) on any key-only
    history of an accepted configuration -/
theorem C04_monitor (cfg : Config) (evs : List Ev) (disc : Bool)
    (hacc : Accepted cfg = true) (hk : evs.all keyOnly = true) :
    checkAll (modelTrace cfg evs disc) = [] :=
  key_histories_all cfg evs disc hacc hk

/-- octave and semitone are plain `int` fields of `Device` (regenerated from device.go): they were `int8`, which wrapped at
    the 128th step and truncated configured defaults — the defect repaired in the repository -/
theorem C04_source_facts : Gen.dev_octave_type = "int" ∧ Gen.dev_semitone_type = "int" := by decide

/-- the specification's note/channel formula, spelled out -/
theorem C04_resolve (cfg : Config) (s : StObs) (vel : Nat) (sub : Sub) (code : Code) (m : Mapping) (k : Key)
    (hm : cfg.maps[s.map]? = some m) (hk : alookup (sub, code) m.midi = some k) :
    resolve cfg s vel sub code =
      if (k.note : Int) + 12 * s.oct + s.semi < 0 ∨ (k.note : Int) + 12 * s.oct + s.semi > 127 then none
      else some (((k.note : Int) + 12 * s.oct + s.semi).toNat, (s.ch + k.chOff) % 16, vel) := by
  unfold resolve
  simp only [hm, hk]

/-- **press**: the device sounds exactly the resolved pair (first holder; see C03 for collisions) -/
theorem C04_press {cfg : Config} {d : Dev} (hd : DInv cfg d)
    (hcnt : ∀ ch n, d.count ch n = (holders d.noteTr (n, ch) : Int))
    (sub : Sub) (code : Code) (hna : alookup code cfg.actions = none) (hsw : (kt d code 1).exitComplete = false) :
    (d.handleKey sub code 1).2 =
      match resolve cfg (StObs.ofDev d) (u8 cfg.vel) sub code with
      | none => []
      | some (n, ch, v) => C03.pressSpec cfg.mode (holders d.noteTr (n, ch)) ch n v :=
  C03.C03_press hd hcnt sub code hna hsw

/-- first holder of its pitch: exactly one Note On of the resolved pair, in every mode -/
theorem C04_press_fresh {cfg : Config} {d : Dev} (hd : DInv cfg d)
    (hcnt : ∀ ch n, d.count ch n = (holders d.noteTr (n, ch) : Int))
    (sub : Sub) (code : Code) (hna : alookup code cfg.actions = none) (hsw : (kt d code 1).exitComplete = false)
    {n ch v : Nat} (hr : resolve cfg (StObs.ofDev d) (u8 cfg.vel) sub code = some (n, ch, v))
    (hfresh : holders d.noteTr (n, ch) = 0) :
    (d.handleKey sub code 1).2 = [noteOnMsg ch n v] := by
  rw [C04_press hd hcnt sub code hna hsw, hr]
  simp only [C03.pressSpec, hfresh]
  cases cfg.mode <;> rfl

theorem resolve_shape {cfg : Config} {s : StObs} {vel : Nat} {sub : Sub} {code : Code} {n ch v : Nat}
    (h : resolve cfg s vel sub code = some (n, ch, v)) : ch < 16 ∧ v = vel := by
  unfold resolve at h
  split at h
  · cases h
  · split at h
    · cases h
    · simp only at h
      split at h
      · cases h
      · simp only [Option.some.injEq, Prod.mk.injEq] at h
        obtain ⟨-, h2, h3⟩ := h
        exact ⟨by rw [← h2]; exact Nat.mod_lt _ (by decide), h3.symm⟩

/-- **velocity**: every Note On a key press produces — the first holder's, or the one after the Note Off of an interrupted
    note, in every collision mode — carries the configured velocity -/
theorem C04_velocity {cfg : Config} {d : Dev} (hd : DInv cfg d)
    (hcnt : ∀ ch n, d.count ch n = (holders d.noteTr (n, ch) : Int))
    (sub : Sub) (code : Code) (hna : alookup code cfg.actions = none) (hsw : (kt d code 1).exitComplete = false)
    (st n v : Nat) (hm : Out.midi st n v ∈ (d.handleKey sub code 1).2) (hon : 0x90 ≤ st) :
    v = u8 cfg.vel := by
  rw [C04_press hd hcnt sub code hna hsw] at hm
  split at hm
  · cases hm
  · rename_i n' ch' v' hr
    obtain ⟨hch, hv⟩ := resolve_shape hr
    have hoff : ∀ {x y z : Nat}, Out.midi x y z = noteOffMsg ch' n' → x < 0x90 := by
      intro x y z h; unfold noteOffMsg at h; injection h with h1; omega
    have hon' : ∀ {x y z : Nat}, Out.midi x y z = noteOnMsg ch' n' v' → z = v' := by
      intro x y z h; unfold noteOnMsg at h; injection h
    unfold C03.pressSpec at hm
    cases hmode : cfg.mode <;> simp only [hmode] at hm
    all_goals
      first
      | (split at hm <;> simp only [List.mem_cons, List.mem_singleton, List.not_mem_nil, or_false] at hm)
      | (simp only [List.mem_cons, List.mem_singleton, List.not_mem_nil, or_false] at hm)
    all_goals
      first
      | (rw [hon' hm, hv])
      | (rcases hm with h | h
         · have := hoff h; omega
         · rw [hon' h, hv])
      | (cases hm)

/-- **unit steps / saturation**: octave and semitone move by exactly one (in ℤ, no wrap-around), channel and mapping
    move by one and saturate at the ends; every other action leaves the four values alone -/
theorem C04_unit_step {cfg : Config} {d : Dev} (hd : DInv cfg d) (a : Action) :
    stateKeyOf (StObs.ofDev (d.invokePress a).1) = actionEffect cfg (StObs.ofDev d) a :=
  invokePress_state hd a trivial

/-- what int8 arithmetic would have done at the edge (the pre-fix behaviour): 127 + 1 = −128 -/
theorem C04_wrap_witness_pre_fix : wrap8 (127 + 1) = -128 ∧ wrap8 200 = -56 := by decide

/-- **pair reset**: when the tracked actions contain exactly one complete pair, `checkDoubleActions` resets that
    parameter to neutral and changes nothing else of the state -/
theorem C04_pair_reset {d : Dev} {p : Action × Action} (h : d.checkDouble.2 = true)
    (hp : completePairs d.actTr = [p]) :
    stateKeyOf (StObs.ofDev d.checkDouble.1) = resetEffect (StObs.ofDev d) p ∧ Frame d d.checkDouble.1 :=
  ⟨checkDouble_one h hp, checkDouble_frame d⟩

/-- ... and the press that completes the pair applies nothing of its own and is silent -/
theorem C04_pair_press_suppressed (d : Dev) (a : Action) (h : (withAct d a).checkDouble.2 = true) :
    actPress d a = ((withAct d a).checkDouble.1, []) := by
  rw [actPress_eq, if_pos h]

/-- **bounds**: channel in 0..15 and mapping inside the list in every reachable state -/
theorem C04_bounds {cfg : Config} (hacc : Accepted cfg = true) {evs : List Ev} (hk : evs.all keyOnly = true) :
    ((Dev.init cfg).run evs).1.channel < 16 ∧ ((Dev.init cfg).run evs).1.mapping < cfg.maps.length := by
  have := C02.reachable_dinv hacc hk
  exact ⟨this.ch, this.map⟩

/-- **initial state**: the configured defaults, whatever their size -/
theorem C04_init (cfg : Config) (h3 : 1 ≤ cfg.defCh ∧ cfg.defCh ≤ 16) :
    (Dev.init cfg).octave = cfg.defOct ∧ (Dev.init cfg).semitone = cfg.defSemi ∧
    ((Dev.init cfg).channel : Int) = cfg.defCh - 1 ∧ (Dev.init cfg).mapping = cfg.defMap ∧
    (Dev.init cfg).velocity = u8 cfg.vel := by
  refine ⟨rfl, rfl, ?_, rfl, rfl⟩
  simp only [Dev.init, u8]; omega

/-! ### non-vacuity -/

def exCfg : Config :=
  { maps := [{ name := "Piano", midi := [(("", 30), ⟨60, 3⟩)], analog := [], dz := [], defDz := [] }],
    actions := [(59, .octaveUp), (60, .octaveDown), (61, .channelUp)], exitSeq := [], mode := .noRepeat,
    defOct := 1, defSemi := -2, defCh := 15, defMap := 0, vel := 100, axes := [] }

/-- octave 1, semitone −2, channel 15 (index 14) + offset 3 = channel index 1; after octave_up: 60+24−2 = 82 -/
example : ((Dev.init exCfg).run [.key "" 30 1, .key "" 30 0, .key "" 59 1, .key "" 30 1]).2 =
    [[noteOnMsg 1 70 100], [noteOffMsg 1 70], [], [noteOnMsg 1 82 100]] := by decide
/-- from octave 127 one more octave-up gives 128, not −128 -/
example : (({ (Dev.init exCfg) with octave := 127 }).invokePress .octaveUp).1.octave = 128 := by decide

end Hidi.Props.C04
