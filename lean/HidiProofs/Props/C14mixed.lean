/-
  C14 on histories of every event kind (keys, axes of all four types, SYN, MIDI input) — no press discipline, no
  key-only restriction:

  * `C14_all_tracker`   : as long as the device has not crashed, the key tracker is exactly the set of keys whose last
                          key event was a press — axis, SYN and MIDI-input events never touch it;
  * `C14_all_signal_iff`: from every state with a current mapping, an event raises the termination signal iff it is a key
                          press after which every key of the (non-empty) exit sequence is in the tracker — no axis event
                          (not even an axis emulating keys or actions), SYN or MIDI-input event ever raises it;
  * `C14_all_history`   : hence, on every history, the signal is raised at step i iff event i is a press that completes
                          the sequence among the keys down at that moment.
-/
import HidiProofs.Mixed
import HidiProofs.Props.C14
namespace Hidi.Props.C14
open Hidi Hidi.Spec Hidi.EngineSim Hidi.KeyHist Hidi.Props.C05

/-! ### nothing but the completing press produces the signal -/

theorem nosig_noteOn (d : Dev) (sub : Sub) (code : Code) : Out.sig ∉ (d.noteOn sub code).2 := by
  unfold Dev.noteOn noteEvent
  split
  · simp
  · split
    · simp
    · simp only
      split_ifs <;> simp only [List.not_mem_nil, not_false_eq_true]
      all_goals (split <;> (try split_ifs) <;> simp)

theorem nosig_noteOff (d : Dev) (code : Code) : Out.sig ∉ (d.noteOff code).2 := by
  unfold Dev.noteOff noteEvent
  split
  · simp
  · simp only
    split <;> (try split_ifs) <;> simp

theorem nosig_analogNoteOn (d : Dev) (id : Code × Bool) (n c : Nat) : Out.sig ∉ (d.analogNoteOn id n c).2 := by
  unfold Dev.analogNoteOn noteEvent
  simp only
  split_ifs <;> simp

theorem nosig_analogNoteOff (d : Dev) (id : Code × Bool) : Out.sig ∉ (d.analogNoteOff id).2 := by
  unfold Dev.analogNoteOff noteEvent
  split <;> simp

theorem nosig_invokePress (d : Dev) (a : Action) : Out.sig ∉ (d.invokePress a).2 := by
  unfold Dev.invokePress panicOuts ccEvent noteEvent
  cases a <;> simp

theorem nosig_releaseAxis (d : Dev) (code : Code) : Out.sig ∉ (d.releaseAxis code).2 := by
  unfold Dev.releaseAxis
  simp only [List.mem_append, not_or]
  exact ⟨nosig_analogNoteOff _ _, nosig_analogNoteOff _ _⟩

theorem nosig_bidirCC (d : Dev) (a : Analog) (neg : Bool) (adj : Rat) : Out.sig ∉ (d.bidirCC a neg adj).2 := by
  unfold Dev.bidirCC ccEvent
  simp only
  split_ifs <;> simp

theorem nosig_absCC (d : Dev) (a : Analog) (canNeg : Bool) (v : Rat) : Out.sig ∉ (d.absCC a canNeg v).2 := by
  unfold Dev.absCC
  simp only
  split_ifs
  · exact nosig_bidirCC _ _ _ _
  · simp [ccEvent]
  · exact nosig_bidirCC _ _ _ _
  · simp [ccEvent]

theorem nosig_absKey (d : Dev) (a : Analog) (code : Code) (canNeg : Bool) (v : Rat) :
    Out.sig ∉ (d.absKey a code canNeg v).2 := by
  unfold Dev.absKey
  simp only
  split_ifs <;> simp only [List.mem_append, not_or, List.not_mem_nil, not_false_eq_true, and_self, true_and] <;>
    first
    | exact ⟨nosig_analogNoteOn _ _ _ _, nosig_analogNoteOff _ _⟩
    | exact ⟨nosig_analogNoteOff _ _, nosig_analogNoteOff _ _⟩
    | exact nosig_analogNoteOff _ _

theorem nosig_absAction (d : Dev) (a : Analog) (canNeg : Bool) (v : Rat) : Out.sig ∉ (d.absAction a canNeg v).2 := by
  unfold Dev.absAction
  simp only
  split_ifs <;> first | exact nosig_invokePress _ _ | simp

theorem nosig_handleAbs (d : Dev) (sub : Sub) (node : String) (code : Code) (raw : Int) :
    Out.sig ∉ (d.handleAbs sub node code raw).2 := by
  unfold Dev.handleAbs
  split
  · simp
  · split
    · exact nosig_releaseAxis _ _
    · rename_i m a ha
      simp only
      have hpre : Out.sig ∉ (if a.kind = .key then (d, ([] : List Out)) else d.releaseAxis code).2 := by
        split_ifs
        · simp
        · exact nosig_releaseAxis _ _
      generalize (if a.kind = .key then (d, ([] : List Out)) else d.releaseAxis code) = dp at hpre
      obtain ⟨d1, pre⟩ := dp
      simp only at hpre ⊢
      split
      · simp only [List.mem_append, List.mem_cons, List.not_mem_nil, or_false, reduceCtorEq]
        exact hpre
      · split_ifs
        all_goals first
          | exact hpre
          | (simp only [List.mem_append, not_or]
             refine ⟨hpre, ?_⟩
             split
             · exact nosig_absCC _ _ _ _
             · simp [pitchBendEvent]
             · exact nosig_absKey _ _ _ _ _
             · exact nosig_absAction _ _ _ _)

/-! ### only key events touch the key tracker -/

theorem noteOn_keyTr (d : Dev) (sub : Sub) (code : Code) : (d.noteOn sub code).1.keyTr = d.keyTr := by
  unfold Dev.noteOn Dev.setCount
  split
  · rfl
  · split
    · rfl
    · simp only
      split_ifs <;> rfl

theorem noteOff_keyTr (d : Dev) (code : Code) : (d.noteOff code).1.keyTr = d.keyTr := by
  unfold Dev.noteOff Dev.setCount
  split <;> rfl

theorem analogNoteOn_keyTr (d : Dev) (id : Code × Bool) (n c : Nat) : (d.analogNoteOn id n c).1.keyTr = d.keyTr := by
  unfold Dev.analogNoteOn
  simp only
  split_ifs <;> rfl

theorem analogNoteOff_keyTr (d : Dev) (id : Code × Bool) : (d.analogNoteOff id).1.keyTr = d.keyTr := by
  unfold Dev.analogNoteOff
  split <;> rfl

theorem releaseAxis_keyTr (d : Dev) (code : Code) : (d.releaseAxis code).1.keyTr = d.keyTr := by
  unfold Dev.releaseAxis
  simp only
  rw [analogNoteOff_keyTr, analogNoteOff_keyTr]

theorem absCC_keyTr (d : Dev) (a : Analog) (canNeg : Bool) (v : Rat) : (d.absCC a canNeg v).1.keyTr = d.keyTr := by
  unfold Dev.absCC
  simp only
  split_ifs
  · exact (Hidi.Mixed.bidirCC_keeps d a _ _).2.2.2.1
  · rfl
  · exact (Hidi.Mixed.bidirCC_keeps d a _ _).2.2.2.1
  · rfl

theorem absKey_keyTr (d : Dev) (a : Analog) (code : Code) (canNeg : Bool) (v : Rat) :
    (d.absKey a code canNeg v).1.keyTr = d.keyTr := by
  rw [(Hidi.Props.C08.C08_frame_strong d a code canNeg v).1]

theorem absAction_keyTr (d : Dev) (a : Analog) (canNeg : Bool) (v : Rat) (hch : d.channel < 16) :
    (d.absAction a canNeg v).1.keyTr = d.keyTr := by
  have := (Hidi.Mixed.absAction_keeps d a canNeg v hch).1
  unfold Hidi.Mixed.proj at this
  exact (Prod.mk.inj (Prod.mk.inj (Prod.mk.inj this).2).2).2

theorem handleAbs_keyTr (d : Dev) (hch : d.channel < 16) (sub : Sub) (node : String) (code : Code) (raw : Int)
    (hdead : (d.handleAbs sub node code raw).1.dead = false) :
    (d.handleAbs sub node code raw).1.keyTr = d.keyTr := by
  unfold Dev.handleAbs at hdead ⊢
  split
  · rename_i hm; simp [hm] at hdead
  · rename_i m hm
    rw [hm] at hdead
    simp only at hdead ⊢
    split
    · exact releaseAxis_keyTr d code
    · rename_i a ha
      rw [ha] at hdead
      simp only at hdead ⊢
      have hpre : (if a.kind = .key then (d, ([] : List Out)) else d.releaseAxis code).1.keyTr = d.keyTr ∧
          (if a.kind = .key then (d, ([] : List Out)) else d.releaseAxis code).1.channel = d.channel := by
        split_ifs
        · exact ⟨rfl, rfl⟩
        · refine ⟨releaseAxis_keyTr d code, ?_⟩
          rw [Hidi.AxisKeyLemmas.releaseAxis_frame d code]
      generalize (if a.kind = .key then (d, ([] : List Out)) else d.releaseAxis code) = dp at hpre hdead
      obtain ⟨d1, pre⟩ := dp
      simp only at hpre hdead ⊢
      have hch1 : d1.channel < 16 := by rw [hpre.2]; exact hch
      split
      · rename_i hz; rw [hz] at hdead; simp at hdead
      · split_ifs
        all_goals first
          | exact hpre.1
          | (simp only
             split
             · rw [absCC_keyTr]; exact hpre.1
             · exact hpre.1
             · rw [absKey_keyTr]; exact hpre.1
             · rw [absAction_keyTr _ _ _ _ (by exact hch1)]; exact hpre.1)

theorem nosig_actPress (d : Dev) (a : Action) : Out.sig ∉ (actPress d a).2 := by
  unfold actPress
  simp only
  split_ifs
  · simp
  · exact nosig_invokePress _ _

theorem handleKey_keyTr {d : Dev} {m : Mapping} (hm : d.curMap = some m) (hch : d.channel < 16)
    (sub : Sub) (code : Code) (val : Int) :
    (d.handleKey sub code val).1.keyTr = (kt d code val).keyTr := by
  have hch1 : (kt d code val).channel < 16 := by rw [(kt_frame d code val).2.2.2.1]; exact hch
  rw [handleKey_eq0 hm]
  split_ifs <;> (try split) <;> first
    | rfl
    | exact (Hidi.Mixed.actPress_keeps (kt d code val) _ hch1).2.2.2.1
    | exact (actRelease_frame (kt d code val) _).2.2.2.2.2.2.2.2.2.2.2
    | exact noteOn_keyTr _ _ _
    | exact noteOff_keyTr _ _

/-- **signal iff completing press**, from every state with a current mapping — whatever else is going on (axes
    deflected, emulated keys sounding, actions held) -/
theorem C14_all_signal_key {d : Dev} {m : Mapping} (hm : d.curMap = some m) (sub : Sub) (code : Code) (val : Int) :
    Out.sig ∈ (d.handleKey sub code val).2 ↔ (val = 1 ∧ (kt d code val).exitComplete = true) := by
  rw [handleKey_eq0 hm]
  constructor
  · intro h
    by_cases hc : val = 1 ∧ (kt d code val).exitComplete = true
    · exact hc
    · exfalso
      rw [if_neg hc] at h
      split at h <;> split_ifs at h <;> first
        | exact nosig_actPress _ _ h
        | exact nosig_noteOn _ _ _ h
        | exact nosig_noteOff _ _ h
        | (simp at h)
  · intro h
    rw [if_pos h]; simp

/-! ### one event of any kind -/

theorem devok_curMap {cfg : Config} {d : Dev} (hd : DevOK cfg d) : ∃ m, d.curMap = some m := by
  obtain ⟨hc, _, _, _, hmap, _, _⟩ := hd
  unfold Dev.curMap
  rw [hc]
  exact ⟨cfg.maps[d.mapping], by simp [hmap]⟩

theorem step_dead_of_dead (d : Dev) (e : Ev) (h : d.dead = true) : d.step e = (d, []) := by
  unfold Dev.step; rw [if_pos h]

theorem run_dead_of_dead (evs : List Ev) : ∀ (d : Dev), d.dead = true → (d.run evs).1 = d := by
  induction evs with
  | nil => intro d _; rfl
  | cons e es ih =>
    intro d h
    rw [run_cons, step_dead_of_dead d e h]
    exact ih d h

/-- **the signal is raised by an event iff it is a key press that completes the exit sequence** — SYN, MIDI input and
    axis events of every type never raise it -/
theorem C14_all_signal_iff {cfg : Config} {d : Dev} (hd : DevOK cfg d) (hdead : d.dead = false) (e : Ev) :
    Out.sig ∈ (d.step e).2 ↔
      ∃ sub code, e = .key sub code 1 ∧ cfg.exitSeq ≠ [] ∧ ∀ k ∈ cfg.exitSeq, k ∈ d.keyTr ∨ k = code := by
  obtain ⟨m, hm⟩ := devok_curMap hd
  have hcfg : d.cfg = cfg := hd.1
  unfold Dev.step
  rw [hdead]
  simp only [Bool.false_eq_true, if_false]
  cases e with
  | syn => simp
  | midiIn a b c => simp
  | abs sub node code raw =>
    simp only
    constructor
    · intro h; exact absurd h (nosig_handleAbs d sub node code raw)
    · rintro ⟨_, _, h, _⟩; cases h
  | key sub code val =>
    simp only
    split
    · rename_i h2
      constructor
      · intro h; cases h
      · rintro ⟨_, _, h, _⟩
        cases h; omega
    · rw [C14_all_signal_key hm]
      constructor
      · rintro ⟨h1, h2⟩
        subst h1
        rw [C14_complete_iff, hcfg] at h2
        exact ⟨sub, code, rfl, h2⟩
      · rintro ⟨s', c', h, h2⟩
        cases h
        refine ⟨rfl, ?_⟩
        rw [C14_complete_iff, hcfg]
        exact h2

/-- only key events move the key tracker -/
theorem step_keyTr {cfg : Config} {d : Dev} (hd : DevOK cfg d) (e : Ev) (hdead : (d.step e).1.dead = false) :
    (d.step e).1.keyTr = keysDown [e] d.keyTr := by
  obtain ⟨m, hm⟩ := devok_curMap hd
  have hch : d.channel < 16 := hd.2.1
  have hd0 : d.dead = false := by
    cases h : d.dead with
    | false => rfl
    | true => rw [step_dead_of_dead d e h] at hdead; rw [h] at hdead; cases hdead
  unfold Dev.step at hdead ⊢
  rw [hd0] at hdead ⊢
  simp only [Bool.false_eq_true, if_false] at hdead ⊢
  cases e with
  | syn => rfl
  | midiIn a b c =>
    simp only [keysDown]
    unfold Dev.midiIn
    simp only
    split_ifs <;> rfl
  | abs sub node code raw =>
    simp only [keysDown] at hdead ⊢
    exact handleAbs_keyTr d hch sub node code raw hdead
  | key sub code val =>
    simp only [keysDown] at hdead ⊢
    split
    · rfl
    · rw [handleKey_keyTr hm hch]
      unfold kt
      split_ifs <;> rfl

/-! ### whole histories -/

/-- **the key tracker is the set of keys that are down**, after any history of keys, axes, SYN and MIDI input, as long
    as the device has not crashed -/
theorem C14_all_tracker (cfg : Config) (hacc : Accepted cfg = true) (evs : List Ev)
    (hdead : ((Dev.init cfg).run evs).1.dead = false) :
    ((Dev.init cfg).run evs).1.keyTr = keysDown evs [] := by
  suffices h : ∀ (evs : List Ev) (d : Dev), DevOK cfg d → (d.run evs).1.dead = false →
      (d.run evs).1.keyTr = keysDown evs d.keyTr from
    h evs _ (C05_init cfg hacc) hdead
  intro evs
  induction evs with
  | nil => intro d _ _; rfl
  | cons e es ih =>
    intro d hd hdd
    rw [run_cons] at hdd ⊢
    simp only at hdd ⊢
    have hs : (d.step e).1.dead = false := by
      cases h : (d.step e).1.dead with
      | false => rfl
      | true => rw [run_dead_of_dead es _ h] at hdd; rw [h] at hdd; cases hdd
    rw [ih _ (C05_step_ok cfg hacc d e hd) hdd, step_keyTr hd e hs, ← keysDown_cons]

/-- **on every history**: step `i` raises the termination signal iff event `i` is a press after which every key of the
    non-empty exit sequence is down (pressed, in any order, and not released since) -/
theorem C14_all_history (cfg : Config) (hacc : Accepted cfg = true) (evs : List Ev) (i : Nat) (hi : i < evs.length)
    (hdead : ((Dev.init cfg).run (evs.take i)).1.dead = false) :
    Out.sig ∈ (((Dev.init cfg).run (evs.take i)).1.step evs[i]).2 ↔
      ∃ sub code, evs[i] = .key sub code 1 ∧ cfg.exitSeq ≠ [] ∧ ∀ k ∈ cfg.exitSeq, k ∈ keysDown (evs.take (i + 1)) [] := by
  have hd := C05_run_ok cfg hacc (evs.take i)
  rw [C14_all_signal_iff hd hdead, C14_all_tracker cfg hacc (evs.take i) hdead]
  have ht : evs.take (i + 1) = evs.take i ++ [evs[i]] := by
    rw [List.take_succ_eq_append_getElem hi]
  have hk : ∀ acc, keysDown (evs.take (i + 1)) acc = keysDown [evs[i]] (keysDown (evs.take i) acc) := by
    rw [ht]
    generalize evs.take i = l
    induction l with
    | nil => intro acc; rfl
    | cons x r ih => intro acc; rw [List.cons_append, keysDown_cons, ih, ← keysDown_cons]
  constructor
  · rintro ⟨sub, code, he, hne, hall⟩
    refine ⟨sub, code, he, hne, ?_⟩
    intro k hk'
    rw [hk, he]
    simp only [keysDown, if_true]
    rw [if_neg (by decide), mem_sinsert]
    exact hall k hk'
  · rintro ⟨sub, code, he, hne, hall⟩
    refine ⟨sub, code, he, hne, ?_⟩
    intro k hk'
    have := hall k hk'
    rw [hk, he] at this
    simp only [keysDown, if_true] at this
    rw [if_neg (by decide), mem_sinsert] at this
    exact this

/-- with an empty exit sequence no history of any kind ever raises the signal -/
theorem C14_all_never_when_empty (cfg : Config) (hacc : Accepted cfg = true) (hempty : cfg.exitSeq = []) (evs : List Ev)
    (i : Nat) (hi : i < evs.length) (hdead : ((Dev.init cfg).run (evs.take i)).1.dead = false) :
    Out.sig ∉ (((Dev.init cfg).run (evs.take i)).1.step evs[i]).2 := by
  rw [C14_all_history cfg hacc evs i hi hdead]
  rintro ⟨_, _, _, hne, _⟩
  exact hne hempty

/-! ### non-vacuity: a history with axis, SYN and MIDI-input events between the two presses of the sequence -/

def mixedEvs : List Ev :=
  [.key "" 30 1, .abs "" "js0" 3 17, .syn, .midiIn 0x90 60 100, .key "" 1 1, .abs "" "js0" 3 0, .key "" 1 0, .key "" 30 0]

example : ((Dev.init exCfg).run mixedEvs).1.dead = false := by decide
example : ((Dev.init exCfg).run mixedEvs).2 = [[noteOnMsg 0 60 64], [], [], [], [.sig], [], [], [noteOffMsg 0 60]] := by decide
example : keysDown (mixedEvs.take 5) [] = [30, 1] ∧ keysDown mixedEvs [] = [] := by decide

end Hidi.Props.C14
