/-
  C09 — Configuration parsing is total: error or configuration, never a crash.

  The model separates the third-party decoder (a parameter: its outcome — value, error or panic — is universally
  quantified) from the repository's own conversion (`Hidi.convert`, `Hidi.loadHidi`), in which every dereference, index and
  division of the Go code is an explicit case.

  * `C09_convert_total`  : for every decoded structure the conversion yields a configuration or an error — no case reaches
                           the panic outcome (no nil dereference for any absent optional field, whatever the mapping type);
  * `C09_parse_total`    : with the deferred `recover` in place, `ParseData` never panics whatever the decoder does;
  * `C09_hidi_total`     : likewise `LoadHIDIConfig`, including `pool_rate` / `discovery_rate` ≤ 0 (no division by zero);
  * `C09_guard_needed`   : without the guard a decoder panic does escape (the defect repaired in the repository);
  * `C09_source_facts`   : both functions install the guard (regenerated from the sources: their bodies start with a
                           deferred function literal).
  Not expressible here: the decoder itself (go-toml, ~6 kLoC of reflection) and hangs; both are only exercised (file mutation
  search with a per-call time limit, labelled as fuzzing in the evidence).
-/
import Hidi.Parser
import Hidi.Gen.Tables
namespace Hidi.Props.C09
open Hidi

theorem convKey_total (v : String) : convKey v ≠ .panic := by
  unfold convKey
  simp only []
  repeat' split
  all_goals simp

theorem convAnalog_total (a : TAnalog) : convAnalog a ≠ .panic := by
  unfold convAnalog
  simp only []
  repeat' split
  all_goals simp

theorem convTable_total {α β} (table : List (String × Nat)) (f : α → Outcome β) (hf : ∀ a, f a ≠ .panic)
    (l : List (String × α)) : convTable table f l ≠ .panic := by
  induction l with
  | nil => simp [convTable]
  | cons p r ih =>
    obtain ⟨k, v⟩ := p
    simp only [convTable]
    split
    · simp
    · split
      · split
        · simp
        · simp
        · rename_i h; exact absurd h ih
      · simp
      · rename_i h; exact absurd h (hf v)

theorem convKeysSubs_total (l : List TKeys) : ∀ acc, convKeysSubs l acc ≠ .panic := by
  induction l with
  | nil => intro acc; simp [convKeysSubs]
  | cons k r ih =>
    intro acc
    simp only [convKeysSubs]
    split
    · exact ih _
    · simp
    · rename_i h; exact absurd h (convTable_total _ _ convKey_total _)

theorem convAnalogSubs_total (l : List TAnalogSub) : ∀ acc, convAnalogSubs l acc ≠ .panic := by
  induction l with
  | nil => intro acc; simp [convAnalogSubs]
  | cons a r ih =>
    intro acc
    simp only [convAnalogSubs]
    split
    · split
      · exact ih _
      · simp
      · rename_i h; exact absurd h (convTable_total _ _ (by intro z; simp) _)
    · simp
    · rename_i h; exact absurd h (convTable_total _ _ convAnalog_total _)

theorem convMapping_total (m : TMapping) : convMapping m ≠ .panic := by
  unfold convMapping
  split
  · split
    · simp
    · simp
    · rename_i h; exact absurd h (convAnalogSubs_total _ _)
  · simp
  · rename_i h; exact absurd h (convKeysSubs_total _ _)

theorem convMappings_total (l : List TMapping) : convMappings l ≠ .panic := by
  induction l with
  | nil => simp [convMappings]
  | cons m r ih =>
    simp only [convMappings]
    split
    · split
      · simp
      · simp
      · rename_i h; exact absurd h ih
    · simp
    · rename_i h; exact absurd h (convMapping_total m)

theorem convExit_total (l : List String) : convExit l ≠ .panic := by
  induction l with
  | nil => simp [convExit]
  | cons k r ih =>
    simp only [convExit]
    split
    · simp
    · split
      · simp
      · simp
      · rename_i h; exact absurd h ih

/-- **the conversion never crashes**, for every decoded structure -/
theorem C09_convert_total (t : TomlCfg) : convert t ≠ .panic := by
  unfold convert
  split
  · rename_i h; exact absurd h (convMappings_total _)
  · simp
  · split
    · rename_i h
      exact absurd h (convTable_total _ _ (by intro s; split <;> simp) _)
    · simp
    · split
      · simp
      · split
        · simp
        · split
          · rename_i h; exact absurd h (convExit_total _)
          · simp
          · simp only []
            repeat' split
            all_goals simp

/-- **`ParseData` is total**: whatever the decoder does — value, error or panic — the result is a configuration or an error -/
theorem C09_parse_total (decoded : Outcome TomlCfg) : parseData decoded true ≠ .panic := by
  unfold parseData
  cases decoded with
  | ok t => exact C09_convert_total t
  | err => simp
  | panic => simp

/-- **`LoadHIDIConfig` is total**, including rates that are zero, negative or absent -/
theorem C09_hidi_total (decoded : Outcome HidiRaw) : loadHidi decoded true ≠ .panic := by
  unfold loadHidi
  cases decoded with
  | err => simp
  | panic => simp
  | ok r =>
    simp only []
    split
    · simp
    · rename_i h
      have h1 : r.poolRate ≠ 0 := by omega
      have h2 : r.discoveryRate ≠ 0 := by omega
      simp [goDiv, h1, h2]

/-- without the guard a decoder panic escapes: the guard is what makes the two theorems above true -/
theorem C09_guard_needed : parseData (.panic : Outcome TomlCfg) false = .panic ∧ loadHidi .panic false = .panic := ⟨rfl, rfl⟩

/-- both functions install the guard: their first statement is a deferred function literal that calls recover() (regenerated from the sources) -/
theorem C09_source_facts : Gen.parseDataRecovers = true ∧ Gen.loadHidiRecovers = true := by decide

/-- hence, for the code as it is: -/
theorem C09_parse_total_now (decoded : Outcome TomlCfg) : parseData decoded Gen.parseDataRecovers ≠ .panic := by
  rw [C09_source_facts.1]; exact C09_parse_total decoded

theorem C09_hidi_total_now (decoded : Outcome HidiRaw) : loadHidi decoded Gen.loadHidiRecovers ≠ .panic := by
  rw [C09_source_facts.2]; exact C09_hidi_total decoded

/-! ### non-vacuity: an action axis without `action_negative`, the input that crashed the original code -/

example : convAnalog { typ := "action", cc := none, ccNeg := none, note := none, noteNeg := none, chOff := 0, chOffNeg := 0,
                       act := some "panic", actNeg := none, flip := false, dzCenter := false } =
    .ok { kind := .action, cc := 0, ccNeg := 0, note := 0, noteNeg := 0, chOff := 0, chOffNeg := 0, act := .panic,
          actNeg := .none, flip := false, bidir := false, dzCenter := false } := by decide
example : loadHidi (.ok ⟨0, 5, 10⟩) true = .err := by decide

end Hidi.Props.C09
