/-
  Helper lemmas for the axis transfer function (`shapeRaw`, `flipVal`, `ccByte`, `pitchBendEvent`)
  of `Hidi/Engine.lean`, on top of the rounding facts of `HidiProofs/FloatLemmas.lean`.

  `shapeRaw` is split into three stages — `normRaw` (normalise), `centre` (optional re-centring),
  `dzCut` (deadzone cut and rescale) — and range / monotonicity is proved stage by stage.
-/
import Mathlib.Tactic.Ring
import Mathlib.Tactic.Linarith
import Mathlib.Tactic.Positivity
import Mathlib.Tactic.FieldSimp
import Mathlib.Tactic.NormNum
import Mathlib.Data.Rat.Floor
import Mathlib.Algebra.Order.Floor.Ring
import Hidi.Engine
import Hidi.Spec
import HidiProofs.FloatLemmas

namespace Hidi.AxisLemmas
open Hidi Hidi.Spec Hidi.FloatLemmas

/-! ### constants -/

theorem rnd53_zero' : rnd53 0 = 0 := rnd53_zero

theorem rnd53_two : rnd53 2 = 2 := by
  have := rnd53_int 2 (by norm_num); simpa using this

theorem rnd53_neg_one : rnd53 (-1) = -1 := by rw [rnd53_neg, rnd53_one]

theorem rnd53_127 : rnd53 127 = 127 := by
  have := rnd53_int 127 (by norm_num); simpa using this

theorem rnd53_16383 : rnd53 16383 = 16383 := by
  have := rnd53_int 16383 (by norm_num); simpa using this

theorem floor_half : ⌊(1/2 : ℚ)⌋ = 0 := by
  rw [Int.floor_eq_iff]; norm_num

theorem fround_int (n : ℤ) : fround (n : ℚ) = n := by
  rw [fround_def]
  split_ifs with h
  · have : -(n:ℚ) + 1/2 = ((-n : ℤ) : ℚ) + 1/2 := by push_cast; ring
    rw [this, Int.floor_intCast_add, floor_half]; omega
  · rw [Int.floor_intCast_add, floor_half]; omega

theorem fround_zero : fround 0 = 0 := by
  have := fround_int 0; simpa using this

theorem fround_16383 : fround 16383 = 16383 := by
  have := fround_int 16383; simpa using this

theorem ftrunc_zero : ftrunc 0 = 0 := by
  have := ftrunc_int 0; simpa using this

theorem ftrunc_127 : ftrunc 127 = 127 := by
  have := ftrunc_int 127; simpa using this

/-! ### unpacking `axisOK` -/

theorem axisOK_iff {mn mx : Int} {dzc : Bool} {dz : Rat} {raw : Int} :
    axisOK mn mx dzc dz raw = true ↔
      mn ≤ 0 ∧ 0 < mx ∧ mn ≤ raw ∧ raw ≤ mx ∧ (dzc = true → mn = 0) ∧ 0 ≤ dz ∧ dz < 1 := by
  cases dzc <;> simp [axisOK]

/-! ### the three stages of `shapeRaw` -/

def normRaw (mn mx raw : Int) : Rat :=
  if raw < 0 then fdiv (raw : Rat) (rabs (mn : Rat)) else fdiv (raw : Rat) (rabs (mx : Rat))

def centre (dzc : Bool) (v0 : Rat) : Rat := if dzc then fsub (fmul v0 2) 1 else v0

def dzCut (dz v1 : Rat) : Rat :=
  if v1 < 0 then
    if -dz < v1 then 0 else fdiv (fadd v1 dz) (fsub 1 dz)
  else
    if v1 < dz then 0 else fdiv (fsub v1 dz) (fsub 1 dz)

theorem shapeRaw_eq (mn mx : Int) (dzc : Bool) (dz : Rat) (raw : Int) :
    shapeRaw mn mx dzc dz raw = dzCut dz (centre dzc (normRaw mn mx raw)) := rfl

/-! #### normalisation -/

theorem normRaw_neg {mn mx raw : Int} (hr : raw < 0) (hmn : mn ≤ raw) :
    -1 ≤ normRaw mn mx raw ∧ normRaw mn mx raw ≤ 0 := by
  have hrq : (raw : ℚ) < 0 := by exact_mod_cast hr
  have hmq : (mn : ℚ) ≤ raw := by exact_mod_cast hmn
  have hmn0 : (mn : ℚ) < 0 := by linarith
  have hab : rabs (mn : ℚ) = -(mn : ℚ) := by rw [rabs_eq, abs_of_neg hmn0]
  have hpos : (0:ℚ) < -(mn : ℚ) := by linarith
  unfold normRaw fdiv
  rw [if_pos hr, hab]
  constructor
  · apply rnd53_ge_neg_one
    rw [le_div_iff₀ hpos]; linarith
  · apply rnd53_nonpos
    exact div_nonpos_of_nonpos_of_nonneg hrq.le hpos.le

theorem normRaw_nonneg {mn mx raw : Int} (hr : 0 ≤ raw) (hmx : raw ≤ mx) (hpos : 0 < mx) :
    0 ≤ normRaw mn mx raw ∧ normRaw mn mx raw ≤ 1 := by
  have hrq : (0 : ℚ) ≤ raw := by exact_mod_cast hr
  have hmq : (raw : ℚ) ≤ mx := by exact_mod_cast hmx
  have hmx0 : (0 : ℚ) < mx := by exact_mod_cast hpos
  have hab : rabs (mx : ℚ) = (mx : ℚ) := by rw [rabs_eq, abs_of_pos hmx0]
  unfold normRaw fdiv
  rw [if_neg (by omega), hab]
  constructor
  · apply rnd53_nonneg
    exact div_nonneg hrq hmx0.le
  · apply rnd53_le_one
    rw [div_le_one hmx0]; exact hmq

theorem normRaw_range {mn mx : Int} {dzc : Bool} {dz : Rat} {raw : Int}
    (h : axisOK mn mx dzc dz raw = true) :
    -1 ≤ normRaw mn mx raw ∧ normRaw mn mx raw ≤ 1 ∧ (0 ≤ raw → 0 ≤ normRaw mn mx raw) := by
  obtain ⟨_, h2, h3, h4, _, _, _⟩ := axisOK_iff.mp h
  rcases lt_or_ge raw 0 with hr | hr
  · obtain ⟨a, b⟩ := normRaw_neg (mx := mx) hr h3
    exact ⟨a, by linarith, fun h => by omega⟩
  · obtain ⟨a, b⟩ := normRaw_nonneg (mn := mn) hr h4 h2
    exact ⟨by linarith, b, fun _ => a⟩

theorem normRaw_mono {mn mx r1 r2 : Int} (hmn1 : mn ≤ r1) (hmx2 : r2 ≤ mx) (hpos : 0 < mx)
    (h : r1 ≤ r2) : normRaw mn mx r1 ≤ normRaw mn mx r2 := by
  rcases lt_or_ge r1 0 with h1 | h1
  · rcases lt_or_ge r2 0 with h2 | h2
    · -- both negative
      have hmq : (mn : ℚ) ≤ r1 := by exact_mod_cast hmn1
      have h1q : (r1 : ℚ) < 0 := by exact_mod_cast h1
      have hq : (r1 : ℚ) ≤ r2 := by exact_mod_cast h
      have hmn0 : (mn : ℚ) < 0 := by linarith
      have hab : rabs (mn : ℚ) = -(mn : ℚ) := by rw [rabs_eq, abs_of_neg hmn0]
      have hpos' : (0:ℚ) < -(mn : ℚ) := by linarith
      unfold normRaw fdiv
      rw [if_pos h1, if_pos h2, hab]
      exact rnd53_mono (div_le_div_of_nonneg_right hq hpos'.le)
    · have a := (normRaw_neg (mx := mx) h1 hmn1).2
      have b := (normRaw_nonneg (mn := mn) h2 hmx2 hpos).1
      linarith
  · have h2 : 0 ≤ r2 := by omega
    have hq : (r1 : ℚ) ≤ r2 := by exact_mod_cast h
    have hmx0 : (0 : ℚ) < mx := by exact_mod_cast hpos
    have hab : rabs (mx : ℚ) = (mx : ℚ) := by rw [rabs_eq, abs_of_pos hmx0]
    unfold normRaw fdiv
    rw [if_neg (by omega), if_neg (by omega), hab]
    exact rnd53_mono (div_le_div_of_nonneg_right hq hmx0.le)

/-! #### centring -/

theorem centre_range {dzc : Bool} {v0 : Rat} (hlo : -1 ≤ v0) (hhi : v0 ≤ 1)
    (hc : dzc = true → 0 ≤ v0) : -1 ≤ centre dzc v0 ∧ centre dzc v0 ≤ 1 := by
  unfold centre
  split_ifs with hd
  · have h0 := hc hd
    have a : 0 ≤ fmul v0 2 := rnd53_nonneg (by linarith)
    have b : fmul v0 2 ≤ 2 := by
      have := rnd53_mono (show v0 * 2 ≤ 2 by linarith); rwa [rnd53_two] at this
    unfold fsub
    exact ⟨rnd53_ge_neg_one (by linarith), rnd53_le_one (by linarith)⟩
  · exact ⟨hlo, hhi⟩

theorem centre_nonneg_of_not {v0 : Rat} (h : 0 ≤ v0) : 0 ≤ centre false v0 := by
  simpa [centre] using h

theorem centre_mono {dzc : Bool} {a b : Rat} (h : a ≤ b) : centre dzc a ≤ centre dzc b := by
  unfold centre
  split_ifs
  · unfold fsub fmul
    apply rnd53_mono
    have := rnd53_mono (show a * 2 ≤ b * 2 by linarith)
    linarith
  · exact h

/-! #### deadzone cut -/

theorem den_pos {dz : Rat} (h : dz < 1) : 0 < fsub 1 dz := rnd53_pos (by linarith)

theorem dzCut_neg_branch_nonpos {dz v : Rat} (h1 : dz < 1) (hv : v ≤ -dz) :
    fdiv (fadd v dz) (fsub 1 dz) ≤ 0 := by
  have hd := den_pos h1
  have : fadd v dz ≤ 0 := rnd53_nonpos (by linarith)
  exact rnd53_nonpos (div_nonpos_of_nonpos_of_nonneg this hd.le)

theorem dzCut_pos_branch_nonneg {dz v : Rat} (h1 : dz < 1) (hv : dz ≤ v) :
    0 ≤ fdiv (fsub v dz) (fsub 1 dz) := by
  have hd := den_pos h1
  have : 0 ≤ fsub v dz := rnd53_nonneg (by linarith)
  exact rnd53_nonneg (div_nonneg this hd.le)

theorem dzCut_le_one {dz v : Rat} (h1 : dz < 1) (hv : v ≤ 1) : dzCut dz v ≤ 1 := by
  have hd := den_pos h1
  unfold dzCut
  split_ifs with a b c
  · norm_num
  · have := dzCut_neg_branch_nonpos (v := v) h1 (by linarith)
    linarith
  · norm_num
  · unfold fdiv
    apply rnd53_le_one
    rw [div_le_one hd]
    exact rnd53_mono (by linarith)

theorem dzCut_ge_neg_one {dz v : Rat} (h1 : dz < 1) (hv : -1 ≤ v) : -1 ≤ dzCut dz v := by
  have hd := den_pos h1
  unfold dzCut
  split_ifs with a b c
  · norm_num
  · unfold fdiv
    apply rnd53_ge_neg_one
    rw [le_div_iff₀ hd]
    have := rnd53_mono (show -(1 - dz) ≤ v + dz by linarith)
    rw [rnd53_neg] at this
    unfold fadd fsub
    linarith
  · norm_num
  · have := dzCut_pos_branch_nonneg (v := v) h1 (by linarith)
    linarith

theorem dzCut_nonneg {dz v : Rat} (h1 : dz < 1) (hv : 0 ≤ v) : 0 ≤ dzCut dz v := by
  unfold dzCut
  rw [if_neg (by linarith)]
  split_ifs with c
  · exact le_refl _
  · exact dzCut_pos_branch_nonneg h1 (by linarith)

theorem dzCut_nonpos {dz v : Rat} (h1 : dz < 1) (hv : v < 0) : dzCut dz v ≤ 0 := by
  unfold dzCut
  rw [if_pos hv]
  split_ifs with c
  · exact le_refl _
  · exact dzCut_neg_branch_nonpos h1 (by linarith)

theorem dzCut_mono {dz v w : Rat} (h1 : dz < 1) (h : v ≤ w) : dzCut dz v ≤ dzCut dz w := by
  have hd := den_pos h1
  rcases lt_or_ge v 0 with hv | hv
  · rcases lt_or_ge w 0 with hw | hw
    · unfold dzCut
      rw [if_pos hv, if_pos hw]
      split_ifs with a b b
      · exact le_refl _
      · exfalso; linarith
      · exact dzCut_neg_branch_nonpos h1 (by linarith)
      · unfold fdiv fadd
        apply rnd53_mono
        apply div_le_div_of_nonneg_right _ hd.le
        exact rnd53_mono (by linarith)
    · exact le_trans (dzCut_nonpos h1 hv) (dzCut_nonneg h1 hw)
  · have hw : 0 ≤ w := by linarith
    unfold dzCut
    rw [if_neg (not_lt.mpr hv), if_neg (not_lt.mpr hw)]
    split_ifs with a b b
    · exact le_refl _
    · exact dzCut_pos_branch_nonneg h1 (by linarith)
    · exfalso; linarith
    · unfold fdiv
      apply rnd53_mono
      apply div_le_div_of_nonneg_right _ hd.le
      exact rnd53_mono (by linarith)

theorem dzCut_one {dz : Rat} (h1 : dz < 1) : dzCut dz 1 = 1 := by
  have hd := den_pos h1
  unfold dzCut
  rw [if_neg (by norm_num), if_neg (by linarith)]
  exact fdiv_self hd.ne'

theorem dzCut_neg_one {dz : Rat} (h1 : dz < 1) : dzCut dz (-1) = -1 := by
  have hd := den_pos h1
  unfold dzCut
  rw [if_pos (by norm_num), if_neg (by linarith)]
  have e : fadd (-1) dz = -fsub 1 dz := by
    unfold fadd fsub
    rw [← rnd53_neg]; congr 1; ring
  unfold fdiv
  rw [e, neg_div, div_self hd.ne', rnd53_neg_one]

theorem dzCut_zero {dz : Rat} (h0 : 0 ≤ dz) : dzCut dz 0 = 0 := by
  unfold dzCut
  rw [if_neg (by norm_num)]
  split_ifs with c
  · rfl
  · have : dz = 0 := by linarith
    subst this
    simp [fdiv, fsub, rnd53_zero]

/-- inside a representable deadzone the result is exactly 0, also when the normalised value
    rounds onto the deadzone boundary -/
theorem dzCut_rest {dz q : Rat} (hrep : rnd53 dz = dz) (hlo : -dz < q) (hhi : q < dz) :
    dzCut dz (rnd53 q) = 0 := by
  have a : rnd53 q ≤ dz := by have := rnd53_mono hhi.le; rwa [hrep] at this
  have b : -dz ≤ rnd53 q := by have := rnd53_mono hlo.le; rwa [rnd53_neg, hrep] at this
  unfold dzCut
  split_ifs with c d d
  · rfl
  · have : rnd53 q = -dz := by linarith
    rw [this]
    simp [fdiv, fadd, rnd53_zero]
  · rfl
  · have : rnd53 q = dz := by linarith
    rw [this]
    simp [fdiv, fsub, rnd53_zero]

/-! ### controller byte -/

theorem fmul127_range {a : Rat} (h0 : 0 ≤ a) (h1 : a ≤ 1) : 0 ≤ fmul 127 a ∧ fmul 127 a ≤ 127 := by
  unfold fmul
  constructor
  · exact rnd53_nonneg (by linarith)
  · have := rnd53_mono (show 127 * a ≤ 127 by linarith); rwa [rnd53_127] at this

theorem ftrunc127_range {a : Rat} (h0 : 0 ≤ a) (h1 : a ≤ 1) :
    0 ≤ ftrunc (fmul 127 a) ∧ ftrunc (fmul 127 a) ≤ 127 := by
  obtain ⟨l, u⟩ := fmul127_range h0 h1
  have a1 := ftrunc_mono l
  have a2 := ftrunc_mono u
  rw [ftrunc_zero] at a1
  rw [ftrunc_127] at a2
  exact ⟨a1, a2⟩

theorem rabs_le_one {v : Rat} (h0 : -1 ≤ v) (h1 : v ≤ 1) : 0 ≤ rabs v ∧ rabs v ≤ 1 := by
  rw [rabs_eq]; exact ⟨abs_nonneg v, abs_le.mpr ⟨h0, h1⟩⟩

/-- `v ∈ [0,1]` ⇒ `fsub (fmul v 2) 1 ∈ [-1,1]` (the unsigned bidirectional re-centring) -/
theorem recentre_range {v : Rat} (h0 : 0 ≤ v) (h1 : v ≤ 1) :
    -1 ≤ fsub (fmul v 2) 1 ∧ fsub (fmul v 2) 1 ≤ 1 := by
  have := centre_range (dzc := true) (v0 := v) (by linarith) h1 (fun _ => h0)
  simpa [centre] using this

end Hidi.AxisLemmas
