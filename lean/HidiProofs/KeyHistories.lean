/-
  HidiProofs.KeyHistories — consequences of the simulation theorem (`EngineSim.steps_sim`) stated
  without the monitor: what a receiver hears, which keys are down, the final invariant.
  Used by `Props/C01..C04, C13, C14`.
-/
import HidiProofs.EngineSim
namespace Hidi.KeyHist
open Hidi Hidi.Spec Hidi.EngineSim

/-- keys whose last event was a press (value-2 repeats are dropped before the tracker) -/
def keysDown : List Ev → List Code → List Code
  | [], acc => acc
  | .key _ code val :: r, acc =>
      keysDown r (if val = 2 then acc else if val = 1 then sinsert code acc else serase code acc)
  | _ :: r, acc => keysDown r acc

/-- everything the model emits on a history, in order -/
def allOuts (d : Dev) (evs : List Ev) : List Out := (modelSteps d evs).1.flatMap (·.outs)

/-- what a receiver hears after the history -/
def heard (cfg : Config) (evs : List Ev) : List (Nat × Nat) := sounding [] (allOuts (Dev.init cfg) evs)

/-- the specification's own bookkeeping after the history (no axes: `infos = []`) -/
def finalBook (cfg : Config) (evs : List Ev) : Book :=
  (checkSteps cfg 0 (Book.init (StObs.ofDev (Dev.init cfg))) (modelSteps (Dev.init cfg) evs).1 []).2

/-- the history is inside the quantifier of C01–C04: values 0/1, alternating per key code, at most one
    complete action pair held and no third action while it is held (the specification's `ok` flag) -/
def Disciplined (cfg : Config) (evs : List Ev) : Prop := (finalBook cfg evs).ok = true

theorem modelSteps_outs (d : Dev) (evs : List Ev) : (modelSteps d evs).1.map (·.outs) = (d.run evs).2 := by
  induction evs generalizing d with
  | nil => rfl
  | cons e es ih => simp only [modelSteps, Dev.run, List.map_cons]; rw [ih]

theorem modelSteps_final (d : Dev) (evs : List Ev) : (modelSteps d evs).2 = (d.run evs).1 := by
  induction evs generalizing d with
  | nil => rfl
  | cons e es ih => simp only [modelSteps, Dev.run]; rw [ih]

theorem allOuts_eq (d : Dev) (evs : List Ev) : allOuts d evs = (d.runFlat evs).2 := by
  unfold allOuts Dev.runFlat
  rw [List.flatMap_def, modelSteps_outs]

theorem expActPress_down (cfg : Config) (b : Book) (a : Action) : (expActPress cfg b a).2.down = b.down := by
  unfold expActPress
  simp only []
  split
  · split
    · split <;> rfl
    · rfl
  · rfl

theorem expNotePress_down (cfg : Config) (b : Book) (sub : Sub) (code : Code) :
    (expNotePress cfg b sub code).2.down = b.down := by
  unfold expNotePress
  split <;> rfl

theorem expNoteRelease_down (cfg : Config) (b : Book) (code : Code) :
    (expNoteRelease cfg b code).2.down = b.down := by
  unfold expNoteRelease
  split <;> rfl

theorem expectKey_down (cfg : Config) (b : Book) (sub : Sub) (code : Code) (val : Int) :
    (expectKey cfg b sub code val).2.down = if val = 1 then sinsert code b.down else serase code b.down := by
  rw [expectKey_eq]
  have hb : (book1 b code val).down = if val = 1 then sinsert code b.down else serase code b.down := rfl
  rw [← hb]
  split
  · rfl
  · split
    · split
      · rw [expActPress_down]
      · rfl
    · split
      · rw [expNotePress_down]
      · rw [expNoteRelease_down]

theorem expectStep_down (cfg : Config) (b : Book) (e : Ev) :
    (expectStep cfg b false e).2.down = keysDown [e] b.down := by
  cases e with
  | key sub code val =>
    unfold expectStep keysDown
    by_cases h2 : val = 2
    · simp [h2, keysDown]
    · simp only [h2, if_false, expectKey_down, keysDown]
  | abs s n c v => simp [expectStep, keysDown]
  | syn => simp [expectStep, keysDown]
  | midiIn x y z => simp [expectStep, keysDown]

theorem keysDown_cons (e : Ev) (es : List Ev) (acc : List Code) :
    keysDown (e :: es) acc = keysDown es (keysDown [e] acc) := by
  cases e <;> simp [keysDown]

/-- the book's `snd` is the receiver's state, its `down` the keys that are down -/
theorem book_snd_down (cfg : Config) (evs : List Ev) : ∀ (d : Dev) (b : Book) (i : Nat),
    (checkSteps cfg i b (modelSteps d evs).1 []).2.snd = sounding b.snd (allOuts d evs) ∧
    (checkSteps cfg i b (modelSteps d evs).1 []).2.down = keysDown evs b.down := by
  induction evs with
  | nil => intro d b i; exact ⟨rfl, rfl⟩
  | cons e es ih =>
    intro d b i
    have h := ih (d.step e).1 (checkStep cfg i b ⟨e, (d.step e).2, StObs.ofDev (d.step e).1⟩ (some 0) false).2 (i + 1)
    have hs := checkStep_snd cfg i b ⟨e, (d.step e).2, StObs.ofDev (d.step e).1⟩ (some 0) false
    simp only [modelSteps, checkSteps, List.headD_nil, List.tail_nil, allOuts, List.flatMap_cons]
    refine ⟨?_, ?_⟩
    · rw [h.1, hs, sounding_append]; rfl
    · rw [h.2, hs, keysDown_cons]; simp only [expectStep_down]

theorem final_inv {cfg : Config} (hacc : Accepted cfg = true) {evs : List Ev} (hk : evs.all keyOnly = true) :
    Inv cfg (modelSteps (Dev.init cfg) evs).2 (finalBook cfg evs) :=
  (steps_sim hacc evs _ _ 0 [] (inv_init hacc) hk (by simp)).1

theorem finalBook_snd (cfg : Config) (evs : List Ev) : (finalBook cfg evs).snd = heard cfg evs :=
  (book_snd_down cfg evs _ _ 0).1

theorem finalBook_down (cfg : Config) (evs : List Ev) : (finalBook cfg evs).down = keysDown evs [] :=
  (book_snd_down cfg evs _ _ 0).2

/-- every monitor failure on a key-only history is a C04 failure, hence none of property `p ≠ "C04"` -/
theorem no_fails_of (p : String) (hp : p ≠ "C04") (cfg : Config) (evs : List Ev) (disc : Bool)
    (hacc : Accepted cfg = true) (hk : evs.all keyOnly = true) :
    failsOf p (checkAll (modelTrace cfg evs disc)) = [] := by
  unfold failsOf
  rw [List.filter_eq_nil_iff]
  intro f hf hpf
  have := (key_histories cfg evs disc hacc hk f hf).1
  simp only [decide_eq_true_eq] at hpf
  exact hp (hpf ▸ this)

end Hidi.KeyHist
