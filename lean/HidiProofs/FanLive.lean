/-
  HidiProofs.FanLive — "removing a device always completes even if that device has stopped reading" as a progress
  theorem about the guarded fan-out of `Hidi.Fan`.

  `helper s id` is the step of the dispatcher round that serves a pending `DespawnOutput(id)`: the dispatcher's send or
  unlock, the despawn itself once the mutex is free, and — only when the dispatcher is blocked on a full output that has
  NOT been told to leave — one receive by that output's consumer.  In every reachable state with `id` pending this step
  is enabled, it is never a step of a consumer that has been told to leave (in particular never of `id`'s), and a
  measure bounded by `2·|outputs| + 4` strictly decreases until the removal has returned.
-/
import HidiProofs.FanLemmas
namespace Hidi.FanLive
open Hidi Hidi.Fan Hidi.FanLemmas Hidi.EngineSim

structure LInv (s : St) : Prop where
  /-- a buffer never holds more than the channel capacity -/
  buf : ∀ id o, alookup id s.outputs = some o → o.buf.length ≤ s.cap
  /-- a pending removal refers to a live output … -/
  pend : ∀ id ∈ s.pendingDespawn, (alookup id s.outputs).isSome = true
  /-- … which, in the guarded variant, has been told to leave -/
  lv : s.guarded = true → ∀ id ∈ s.pendingDespawn, ∀ o, alookup id s.outputs = some o → o.leaving = true

theorem linv_init (guarded : Bool) (cap : Nat) : LInv { guarded := guarded, cap := cap } :=
  ⟨(by intro id o h; simp [alookup] at h), (by intro id h; cases h), (by intro _ id h; cases h)⟩

theorem setOut_lookup (s : St) (id id' : Nat) (o o0 : Output) (h : alookup id s.outputs = some o0) :
    alookup id' (setOut s id o).outputs = if id' = id then some o else alookup id' s.outputs := by
  by_cases e : id' = id
  · subst e; rw [if_pos rfl]; exact setOut_lookup_self s id' o (by rw [h]; rfl)
  · rw [if_neg e]; exact setOut_lookup_ne s id id' o e

/-- an update of one output that keeps `leaving` and respects the capacity keeps the invariant -/
theorem setOut_linv (s : St) (id : Nat) (o0 o : Output) (hi : LInv s) (h : alookup id s.outputs = some o0)
    (hb : o.buf.length ≤ s.cap) (hl : o.leaving = o0.leaving) : LInv (setOut s id o) := by
  refine ⟨?_, ?_, ?_⟩
  · intro id' o' h'
    rw [setOut_lookup s id id' o o0 h] at h'
    split at h'
    · cases h'; exact hb
    · exact hi.buf id' o' h'
  · intro id' hp
    show (alookup id' (setOut s id o).outputs).isSome = true
    rw [setOut_lookup s id id' o o0 h]
    split
    · rfl
    · exact hi.pend id' hp
  · intro hg id' hp o' h'
    rw [setOut_lookup s id id' o o0 h] at h'
    split at h'
    · rename_i e; subst e; cases h'; rw [hl]; exact hi.lv hg id' hp o0 h
    · exact hi.lv hg id' hp o' h'

theorem step_linv (s : St) (x : Step) (hi : LInv s) (he : enabled s x = true) : LInv (step s x) := by
  cases x with
  | feed m => exact ⟨hi.buf, hi.pend, hi.lv⟩
  | take =>
    simp only [step]
    split
    · exact ⟨hi.buf, hi.pend, hi.lv⟩
    · exact hi
  | unlock => exact ⟨hi.buf, hi.pend, hi.lv⟩
  | send =>
    simp only [step]
    split
    · rename_i m id rest hin
      split
      · rename_i o ho
        split
        · rename_i hlt
          have := setOut_linv s id o { o with buf := o.buf ++ [m] } hi ho (by simp; omega) rfl
          exact ⟨this.buf, this.pend, this.lv⟩
        · exact ⟨hi.buf, hi.pend, hi.lv⟩
      · exact ⟨hi.buf, hi.pend, hi.lv⟩
    · exact hi
  | spawn =>
    simp only [step]
    have hf := freeId_fresh s.outputs
    have hnone : alookup (freeId s.outputs) s.outputs = none := alookup_eq_none.mpr hf
    refine ⟨?_, ?_, ?_⟩
    · intro id o h
      simp only [alookup_append] at h
      cases h1 : alookup id s.outputs with
      | some o1 => rw [h1] at h; simp at h; subst h; exact hi.buf id o1 h1
      | none =>
        rw [h1] at h
        simp only [alookup] at h
        split at h
        · simp at h; subst h; simp
        · simp at h
    · intro id hp
      simp only [alookup_append]
      have := hi.pend id hp
      cases h1 : alookup id s.outputs with
      | some o1 => rfl
      | none => rw [h1] at this; cases this
    · intro hg id hp o h
      simp only [alookup_append] at h
      have := hi.pend id hp
      cases h1 : alookup id s.outputs with
      | some o1 => rw [h1] at h; simp at h; subst h; exact hi.lv hg id hp o1 h1
      | none => rw [h1] at this; cases this
  | callDespawn id =>
    simp only [enabled, Bool.and_eq_true, Bool.not_eq_true'] at he
    obtain ⟨hsome, hnot⟩ := he
    cases ho : alookup id s.outputs with
    | none => rw [ho] at hsome; cases hsome
    | some o0 =>
      simp only [step]
      cases hg : s.guarded with
      | false =>
        simp only [Bool.false_eq_true, if_false]
        refine ⟨hi.buf, ?_, ?_⟩
        · intro id' hp
          rcases List.mem_append.mp hp with h | h
          · exact hi.pend id' h
          · simp at h; subst h; exact hsome
        · intro hg'; simp [hg] at hg'
      | true =>
        simp only [if_true, ho]
        have key := fun id' o => setOut_lookup { s with guarded := true, pendingDespawn := s.pendingDespawn ++ [id] } id id' o o0 ho
        refine ⟨?_, ?_, ?_⟩
        · intro id' o' h'
          rw [key] at h'
          split at h'
          · cases h'; exact hi.buf id o0 ho
          · exact hi.buf id' o' h'
        · intro id' hp
          show (alookup id' (setOut _ id _).outputs).isSome = true
          rw [key]
          split
          · rfl
          · rcases List.mem_append.mp hp with h | h
            · exact hi.pend id' h
            · simp at h; rename_i hne; exact absurd h hne
        · intro _ id' hp o' h'
          rw [key] at h'
          split at h'
          · cases h'; rfl
          · rename_i hne
            rcases List.mem_append.mp hp with h | h
            · exact hi.lv hg id' h o' h'
            · simp at h; exact absurd h hne
  | despawn id =>
    simp only [step]
    split
    · rename_i o0 ho
      refine ⟨?_, ?_, ?_⟩
      · intro id' o' h'
        by_cases e : id' = id
        · subst e; rw [alookup_aerase_self] at h'; cases h'
        · rw [alookup_aerase_ne e] at h'; exact hi.buf id' o' h'
      · intro id' hp
        simp only [List.mem_filter, decide_eq_true_eq] at hp
        show (alookup id' (aerase id s.outputs)).isSome = true
        rw [alookup_aerase_ne hp.2]; exact hi.pend id' hp.1
      · intro hg id' hp o' h'
        simp only [List.mem_filter, decide_eq_true_eq] at hp
        rw [alookup_aerase_ne hp.2] at h'
        exact hi.lv hg id' hp.1 o' h'
    · refine ⟨hi.buf, ?_, ?_⟩
      · intro id' hp
        simp only [List.mem_filter, decide_eq_true_eq] at hp
        exact hi.pend id' hp.1
      · intro hg id' hp o' h'
        simp only [List.mem_filter, decide_eq_true_eq] at hp
        exact hi.lv hg id' hp.1 o' h'
  | consume id =>
    simp only [step]
    split
    · rename_i o ho
      split
      · rename_i m r hb
        have hle := hi.buf id o ho
        exact setOut_linv s id o { o with buf := r, recvd := o.recvd ++ [m] } hi ho (by rw [hb] at hle; simp at hle ⊢; omega) rfl
      · exact hi
    · exact hi

theorem run_linv (steps : List Step) : ∀ s, LInv s → LInv (run s steps) := by
  induction steps with
  | nil => intro s h; exact h
  | cons x r ih =>
    intro s h
    simp only [run]
    split
    · rename_i he; exact ih _ (step_linv s x h he)
    · exact ih _ h

@[simp] theorem step_cap (s : St) (x : Step) : (step s x).cap = s.cap := by
  cases x <;> simp only [step, setOut] <;> (repeat' split) <;> rfl

@[simp] theorem step_guarded (s : St) (x : Step) : (step s x).guarded = s.guarded := by
  cases x <;> simp only [step, setOut] <;> (repeat' split) <;> rfl

/-! ### progress -/

/-- the step that serves the pending removal of `id` -/
def helper (s : St) (id : Nat) : Step :=
  match s.inflight with
  | none => .despawn id
  | some (_, []) => .unlock
  | some (_, j :: _) => if enabled s .send then .send else .consume j

/-- steps of the dispatcher round still ahead, counted generously -/
def measure (s : St) : Nat :=
  match s.inflight with
  | none => 1
  | some (_, []) => 2
  | some (_, _ :: r) => 2 * r.length + 4 + (if enabled s .send then 0 else 1)

/-- **the helper step is always enabled** while the removal is pending -/
theorem helper_enabled (s : St) (id : Nat) (hc : 0 < s.cap) (hp : id ∈ s.pendingDespawn) :
    enabled s (helper s id) = true := by
  unfold helper
  split
  · rename_i hn; simp [enabled, hn, hp]
  · rename_i hn; simp [enabled, hn]
  · rename_i m j r hn
    split
    · assumption
    · rename_i hs
      simp only [enabled, hn] at hs
      cases ho : alookup j s.outputs with
      | none => simp [ho] at hs
      | some o =>
        simp only [ho, Bool.or_eq_true, decide_eq_true_eq, Bool.and_eq_true, not_or] at hs
        simp only [enabled, ho]
        cases hb : o.buf with
        | nil => rw [hb] at hs; simp at hs; omega
        | cons _ _ => rfl

/-- **no step of a leaving consumer is needed**: when the helper step is a receive, it is a receive by an output that
    has not been told to leave (so not the one being removed, nor any other output under removal) -/
theorem helper_consumer (s : St) (id j : Nat) (hi : LInv s) (hg : s.guarded = true) (h : helper s id = .consume j) :
    ∃ o, alookup j s.outputs = some o ∧ o.leaving = false ∧ j ∉ s.pendingDespawn := by
  unfold helper at h
  split at h
  · cases h
  · cases h
  · rename_i m j' r hn
    split at h
    · cases h
    · rename_i hs
      cases h
      simp only [enabled, hn] at hs
      cases ho : alookup j s.outputs with
      | none => simp [ho] at hs
      | some o =>
        simp only [ho, hg, Bool.true_and, Bool.or_eq_true, decide_eq_true_eq, not_or, Bool.not_eq_true] at hs
        refine ⟨o, rfl, hs.2, ?_⟩
        intro hp
        have := hi.lv hg j hp o ho
        rw [hs.2] at this; cases this

/-- after the helper step the removal has returned, or the measure is smaller -/
theorem helper_progress (s : St) (id : Nat) (hi : LInv s) (hc : 0 < s.cap) (hp : id ∈ s.pendingDespawn) :
    id ∉ (step s (helper s id)).pendingDespawn ∨
      (id ∈ (step s (helper s id)).pendingDespawn ∧ measure (step s (helper s id)) < measure s) := by
  unfold helper
  split
  · -- despawn
    left
    simp only [step]
    split <;> simp
  · rename_i m hn
    right
    refine ⟨by simpa [step] using hp, ?_⟩
    simp [measure, step, hn]
  · rename_i m j r hn
    right
    split
    · rename_i hs
      -- send
      have hpd : (step s .send).pendingDespawn = s.pendingDespawn := by
        simp only [step, hn]; (repeat' split) <;> rfl
      have hin : (step s .send).inflight = some (m, r) := by
        simp only [step, hn]; (repeat' split) <;> rfl
      refine ⟨by rw [hpd]; exact hp, ?_⟩
      unfold measure
      rw [hin, hn]
      simp only [hs, if_true]
      cases r with
      | nil => simp
      | cons a b => simp only [List.length_cons]; split <;> omega
    · rename_i hs
      -- the consumer of the full, not leaving output receives one message
      simp only [enabled, hn] at hs
      cases ho : alookup j s.outputs with
      | none => simp [ho] at hs
      | some o =>
        simp only [ho, Bool.or_eq_true, decide_eq_true_eq, Bool.and_eq_true, not_or] at hs
        have hle := hi.buf j o ho
        cases hb : o.buf with
        | nil =>
          -- an empty buffer is full only with capacity 0
          have : ¬ (0 < s.cap) := by simpa [hb] using hs.1
          omega
        | cons x xs =>
          have hst : step s (.consume j) = setOut s j { o with buf := xs, recvd := o.recvd ++ [x] } := by
            simp only [step, ho, hb]
          have hpd : (step s (.consume j)).pendingDespawn = s.pendingDespawn := by rw [hst]; rfl
          have hin : (step s (.consume j)).inflight = some (m, j :: r) := by rw [hst]; exact hn
          refine ⟨by rw [hpd]; exact hp, ?_⟩
          have hen : enabled (step s (.consume j)) .send = true := by
            simp only [enabled, hin]
            rw [hst, setOut_lookup s j j _ o ho]
            simp only [if_true]
            rw [hb] at hle
            simp only [List.length_cons] at hle
            show (decide (xs.length < (setOut s j _).cap) || _) = true
            have : (setOut s j { o with buf := xs, recvd := o.recvd ++ [x] }).cap = s.cap := rfl
            rw [this]
            simp only [Bool.or_eq_true, decide_eq_true_eq]
            left; omega
          unfold measure
          rw [hin, hn, hen]
          have : ¬ (enabled s .send = true) := by
            simp only [enabled, hn, ho, Bool.or_eq_true, decide_eq_true_eq, Bool.and_eq_true, not_or]
            exact hs
          simp [this]

/-- run the helper step while the removal is pending -/
def drive (id : Nat) : Nat → St → St
  | 0, s => s
  | n + 1, s => if id ∈ s.pendingDespawn then drive id n (step s (helper s id)) else s

theorem drive_done (id : Nat) (n : Nat) (s : St) (h : id ∉ s.pendingDespawn) : drive id n s = s := by
  cases n with
  | zero => rfl
  | succ k => simp only [drive, h, if_false]

/-- every step `drive` takes is enabled -/
def driveSteps (id : Nat) : Nat → St → List Step
  | 0, _ => []
  | n + 1, s => if id ∈ s.pendingDespawn then helper s id :: driveSteps id n (step s (helper s id)) else []

theorem drive_is_run (id : Nat) (n : Nat) : ∀ s, LInv s → 0 < s.cap → run s (driveSteps id n s) = drive id n s := by
  induction n with
  | zero => intro s _ _; rfl
  | succ n ih =>
    intro s hi hc
    simp only [driveSteps, drive]
    split
    · rename_i hp
      simp only [run, helper_enabled s id hc hp, if_true]
      exact ih _ (step_linv s _ hi (helper_enabled s id hc hp)) (by simpa using hc)
    · rfl

/-- **the removal completes**: within `measure s` helper steps `DespawnOutput(id)` has returned and the output is gone -/
theorem drive_completes (id : Nat) : ∀ (n : Nat) (s : St), LInv s → 0 < s.cap → measure s ≤ n →
    id ∉ (drive id n s).pendingDespawn := by
  intro n
  induction n with
  | zero =>
    intro s _ _ hm
    unfold measure at hm
    (repeat' split at hm) <;> omega
  | succ n ih =>
    intro s hi hc hm
    simp only [drive]
    split
    · rename_i hp
      have he := helper_enabled s id hc hp
      have hi' := step_linv s _ hi he
      rcases helper_progress s id hi hc hp with h | ⟨_, h⟩
      · rw [drive_done id n _ h]; exact h
      · exact ih _ hi' (by simpa using hc) (by omega)
    · assumption

theorem nodup_subset_length : ∀ (a b : List Nat), a.Nodup → (∀ x ∈ a, x ∈ b) → a.length ≤ b.length := by
  intro a
  induction a with
  | nil => intro b _ _; simp
  | cons x r ih =>
    intro b hn hs
    have hx := hs x List.mem_cons_self
    have hr := ih (b.erase x) (List.nodup_cons.mp hn).2 (by
      intro y hy
      have hne : y ≠ x := by intro e; subst e; exact (List.nodup_cons.mp hn).1 hy
      exact (List.mem_erase_of_ne hne).mpr (hs y (List.mem_cons_of_mem _ hy)))
    rw [List.length_erase_of_mem hx] at hr
    have : 0 < b.length := List.length_pos_of_mem hx
    simp only [List.length_cons]; omega

theorem measure_le (s : St) (hi : Inv s) : measure s ≤ 2 * s.outputs.length + 5 := by
  unfold measure
  split
  · omega
  · omega
  · rename_i m j r hn
    obtain ⟨hnd, -, hsub⟩ := hi.todo m (j :: r) hn
    have : (j :: r).length ≤ (akeys s.outputs).length := nodup_subset_length _ _ hnd hsub
    simp only [List.length_cons, akeys, List.length_map] at this
    split <;> omega

/-! ### the statement over schedules -/

/-- a step that the removal of `id` may rely on: the dispatcher's send or unlock, the despawn itself, or a receive by a
    consumer that has not been told to leave -/
def GoodStep (t : St) (id : Nat) (x : Step) : Prop :=
  enabled t x = true ∧
  (x = .send ∨ x = .unlock ∨ x = .despawn id ∨
    ∃ j, x = .consume j ∧ ∃ o, alookup j t.outputs = some o ∧ o.leaving = false ∧ j ∉ t.pendingDespawn)

def GoodSchedule (id : Nat) : St → List Step → Prop
  | _, [] => True
  | t, x :: r => GoodStep t id x ∧ GoodSchedule id (step t x) r

theorem helper_good (s : St) (id : Nat) (hi : LInv s) (hg : s.guarded = true) (hc : 0 < s.cap)
    (hp : id ∈ s.pendingDespawn) : GoodStep s id (helper s id) := by
  refine ⟨helper_enabled s id hc hp, ?_⟩
  cases hh : helper s id with
  | consume j => right; right; right; exact ⟨j, rfl, helper_consumer s id j hi hg hh⟩
  | send => left; rfl
  | unlock => right; left; rfl
  | despawn k =>
    right; right; left
    unfold helper at hh
    (repeat' split at hh) <;> cases hh
    rfl
  | feed m => unfold helper at hh; (repeat' split at hh) <;> cases hh
  | take => unfold helper at hh; (repeat' split at hh) <;> cases hh
  | spawn => unfold helper at hh; (repeat' split at hh) <;> cases hh
  | callDespawn k => unfold helper at hh; (repeat' split at hh) <;> cases hh

theorem driveSteps_good (id : Nat) (n : Nat) : ∀ s, LInv s → s.guarded = true → 0 < s.cap →
    GoodSchedule id s (driveSteps id n s) := by
  induction n with
  | zero => intro s _ _ _; trivial
  | succ n ih =>
    intro s hi hg hc
    simp only [driveSteps]
    split
    · rename_i hp
      have hgood := helper_good s id hi hg hc hp
      exact ⟨hgood, ih _ (step_linv s _ hi hgood.1) (by simpa using hg) (by simpa using hc)⟩
    · trivial

theorem driveSteps_length (id : Nat) (n : Nat) : ∀ s, (driveSteps id n s).length ≤ n := by
  induction n with
  | zero => intro s; simp [driveSteps]
  | succ n ih =>
    intro s
    simp only [driveSteps]
    split
    · simp only [List.length_cons]; have := ih (step s (helper s id)); omega
    · simp

theorem run_cap (steps : List Step) : ∀ s, (run s steps).cap = s.cap := by
  induction steps with
  | nil => intro s; rfl
  | cons x r ih => intro s; simp only [run]; split <;> simp [ih]

theorem run_guarded (steps : List Step) : ∀ s, (run s steps).guarded = s.guarded := by
  induction steps with
  | nil => intro s; rfl
  | cons x r ih => intro s; simp only [run]; split <;> simp [ih]

end Hidi.FanLive
