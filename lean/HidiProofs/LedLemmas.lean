/-
  HidiProofs.LedLemmas — facts about the frame model `Hidi.Led.frame` with checked writes.
-/
import HidiProofs.EngineSimBase
import Hidi.Led
namespace Hidi.LedLemmas
open Hidi Hidi.Led Hidi.EngineSim

/-- a frame of `n` colours in which every index of `S` shows `c` -/
def Good (n : Nat) (S : List Nat) (c : RGB) (f : Frame) : Prop :=
  ∃ l, f = .ok l ∧ l.length = n ∧ ∀ i ∈ S, i < n → l[i]? = some c

def IsOk (n : Nat) (f : Frame) : Prop := ∃ l, f = .ok l ∧ l.length = n

theorem Good.isOk {n S c f} (h : Good n S c f) : IsOk n f := by
  obtain ⟨l, h1, h2, -⟩ := h; exact ⟨l, h1, h2⟩

/-- writing `c` inside the frame keeps earlier `c`-painted indices and adds the new one -/
theorem setAt_good {n : Nat} {S : List Nat} {c : RGB} {f : Frame} (h : Good n S c f) (j : Nat) (hj : j < n) :
    Good n (j :: S) c (setAt f j c) := by
  obtain ⟨l, rfl, hl, hs⟩ := h
  refine ⟨l.set j c, by simp [setAt, hl, hj], by simp [hl], ?_⟩
  intro i hi hin
  rcases List.mem_cons.mp hi with e | e
  · subst e; simp [hl, hin]
  · by_cases hij : j = i
    · subst hij; simp [hl, hin]
    · rw [List.getElem?_set_ne hij]; exact hs i e hin

theorem setAt_isOk {n : Nat} {f : Frame} (h : IsOk n f) (j : Nat) (c : RGB) (hj : j < n) : IsOk n (setAt f j c) := by
  obtain ⟨l, rfl, hl⟩ := h
  exact ⟨l.set j c, by simp [setAt, hl, hj], by simp [hl]⟩

/-- `indexMap` only yields indices of LEDs -/
theorem indexMap_lt (leds : List String) : ∀ k i, alookup k (indexMap leds) = some i → i < leds.length := by
  unfold indexMap
  have gen : ∀ (l : List (String × Nat)) (m : List (Nat × Nat)),
      (∀ p ∈ l, p.2 < leds.length) → (∀ k i, alookup k m = some i → i < leds.length) →
      ∀ k i, alookup k (l.foldl (fun m (p : String × Nat) => match ledKey p.1 with
        | some k => ainsert k p.2 m | none => m) m) = some i → i < leds.length := by
    intro l
    induction l with
    | nil => intro m _ hm; exact hm
    | cons p r ih =>
      intro m hl hm
      simp only [List.foldl_cons]
      apply ih _ (fun q hq => hl q (List.mem_cons_of_mem _ hq))
      intro k i hk
      split at hk
      · rename_i kk _
        by_cases e : k = kk
        · subst e
          rw [alookup_ainsert_self] at hk
          simp only [Option.some.injEq] at hk; subst hk
          exact hl p List.mem_cons_self
        · rw [alookup_ainsert_ne e] at hk; exact hm k i hk
      · exact hm k i hk
  apply gen
  · intro p hp
    have := List.mem_zipIdx' hp
    omega
  · intro k i h; simp [alookup] at h

/-- painting one note with `c`: stays a frame; everything painted `c` before stays `c`; the LEDs of the keys with that
    base note show `c` -/
theorem paintNote_good {n : Nat} (leds : List String) (hn : leds.length = n) (m : Mapping) (note : Nat) (c : RGB) :
    ∀ (S : List Nat) (f : Frame), Good n S c f →
      Good n (((keysWithNote m note).filterMap (fun code => alookup code (indexMap leds))) ++ S) c
        (paintNote (indexMap leds) m f note c) := by
  unfold paintNote
  generalize keysWithNote m note = ks
  induction ks with
  | nil => intro S f h; simpa using h
  | cons k r ih =>
    intro S f h
    simp only [List.foldl_cons, List.filterMap_cons]
    cases hk : alookup k (indexMap leds) with
    | none =>
      simp only
      exact ih S f h
    | some i =>
      simp only
      have hi : i < n := hn ▸ indexMap_lt leds k i hk
      have := ih (i :: S) _ (setAt_good h i hi)
      obtain ⟨l, h1, h2, h3⟩ := this
      refine ⟨l, h1, h2, ?_⟩
      intro j hj hjn
      apply h3 j _ hjn
      simp only [List.mem_append, List.mem_cons] at hj ⊢
      rcases hj with (e | e) | e
      · right; left; exact e
      · left; exact e
      · right; right; exact e

/-- a fold of `paintNote` with one colour over a list of notes -/
theorem foldNotes_good {α} {n : Nat} (leds : List String) (hn : leds.length = n) (m : Mapping) (c : RGB)
    (g : α → Nat) (L : List α) : ∀ (S : List Nat) (f : Frame), Good n S c f →
      ∃ S', Good n S' c (L.foldl (fun f p => paintNote (indexMap leds) m f (g p) c) f) ∧
        (∀ i ∈ S, i ∈ S') ∧
        ∀ p ∈ L, ∀ code ∈ keysWithNote m (g p), ∀ i, alookup code (indexMap leds) = some i → i ∈ S' := by
  induction L with
  | nil => intro S f h; exact ⟨S, h, fun i hi => hi, by intro p hp; cases hp⟩
  | cons p r ih =>
    intro S f h
    simp only [List.foldl_cons]
    obtain ⟨S', g1, g2, g3⟩ := ih _ _ (paintNote_good leds hn m (g p) c S f h)
    refine ⟨S', g1, fun i hi => g2 i (List.mem_append_right _ hi), ?_⟩
    intro q hq code hcode i hi
    rcases List.mem_cons.mp hq with e | e
    · subst e
      apply g2
      apply List.mem_append_left
      exact List.mem_filterMap.mpr ⟨code, hcode, hi⟩
    · exact g3 q e code hcode i hi

end Hidi.LedLemmas

namespace Hidi.LedLemmas
open Hidi Hidi.Led Hidi.EngineSim

theorem nameToIndex_lt (leds : List String) : ∀ k i, alookup k (nameToIndex leds) = some i → i < leds.length := by
  unfold nameToIndex
  have gen : ∀ (l : List (String × Nat)) (m : List (String × Nat)),
      (∀ p ∈ l, p.2 < leds.length) → (∀ k i, alookup k m = some i → i < leds.length) →
      ∀ k i, alookup k (l.foldl (fun m (p : String × Nat) => ainsert p.1 p.2 m) m) = some i → i < leds.length := by
    intro l
    induction l with
    | nil => intro m _ hm; exact hm
    | cons p r ih =>
      intro m hl hm
      simp only [List.foldl_cons]
      apply ih _ (fun q hq => hl q (List.mem_cons_of_mem _ hq))
      intro k i hk
      by_cases e : k = p.1
      · subst e
        rw [alookup_ainsert_self] at hk
        simp only [Option.some.injEq] at hk; subst hk
        exact hl p List.mem_cons_self
      · rw [alookup_ainsert_ne e] at hk; exact hm k i hk
  apply gen
  · intro p hp
    have := List.mem_zipIdx' hp
    omega
  · intro k i h; simp [alookup] at h

theorem paintAction_isOk {n : Nat} (cfg : Config) (im : List (Nat × Nat)) {f : Frame} (h : IsOk n f) (a : Action) (c : RGB) :
    IsOk n (paintAction true cfg im f a c) := by
  unfold paintAction
  simp only [if_true]
  obtain ⟨l, rfl, hl⟩ := h
  cases actionCode cfg a with
  | none => exact ⟨l, rfl, hl⟩
  | some code =>
    simp only
    cases alookup code im with
    | none => exact ⟨l, rfl, hl⟩
    | some i =>
      simp only
      by_cases hi : i < l.length
      · rw [if_pos hi]; exact ⟨_, rfl, by simp [hl]⟩
      · rw [if_neg hi]; exact ⟨l, rfl, hl⟩

theorem foldl_isOk {α} {n : Nat} (g : Frame → α → Frame) (hg : ∀ f a, IsOk n f → IsOk n (g f a)) (L : List α) :
    ∀ f, IsOk n f → IsOk n (L.foldl g f) := by
  induction L with
  | nil => intro f h; exact h
  | cons a r ih => intro f h; exact ih _ (hg f a h)

theorem paintNote_isOk {n : Nat} (leds : List String) (hn : leds.length = n) (m : Mapping) (note : Nat) (c : RGB)
    {f : Frame} (h : IsOk n f) : IsOk n (paintNote (indexMap leds) m f note c) := by
  obtain ⟨l, rfl, hl⟩ := h
  have : Good n [] c (.ok l) := ⟨l, rfl, hl, by intro i hi; cases hi⟩
  exact (paintNote_good leds hn m note c [] _ this).isOk

/-- induction principle for the pre-frame: a predicate that holds of the blank frame and is kept by a checked strip
    write and by a checked action paint holds of `framePre` -/
theorem framePre_ind (P : Frame → Prop) (d : Dev) (devName : String) (leds : List String)
    (h0 : P (.ok (List.replicate leds.length d.cfg.colors.unavailable)))
    (hstrip : ∀ f name, name ∈ stripLeds devName → P f →
      P (match alookup name (nameToIndex leds) with | some i => setAt f i off | none => f))
    (hpa : ∀ f a c, P f → P (paintAction true d.cfg (indexMap leds) f a c)) :
    P (framePre true d devName leds) := by
  unfold framePre frameStrip
  simp only [if_true]
  have hs : P ((stripLeds devName).foldl (fun f name =>
      match alookup name (nameToIndex leds) with | some i => setAt f i off | none => f)
      (.ok (List.replicate leds.length d.cfg.colors.unavailable))) := by
    have gen : ∀ (L : List String) (f0 : Frame), (∀ x ∈ L, x ∈ stripLeds devName) → P f0 →
        P (L.foldl (fun f name => match alookup name (nameToIndex leds) with | some i => setAt f i off | none => f) f0) := by
      intro L
      induction L with
      | nil => intro f0 _ h; exact h
      | cons a r ih =>
        intro f0 hL h
        exact ih _ (fun x hx => hL x (List.mem_cons_of_mem _ hx)) (hstrip f0 a (hL a List.mem_cons_self) h)
    exact gen _ _ (fun x hx => hx) h0
  generalize actionPaints d = ps
  generalize (List.foldl (fun f name => match alookup name (nameToIndex leds) with | some i => setAt f i off | none => f)
      (Outcome.ok (List.replicate leds.length d.cfg.colors.unavailable)) (stripLeds devName)) = f0 at hs ⊢
  induction ps generalizing f0 with
  | nil => exact hs
  | cons p r ih => exact ih _ (hpa f0 p.1 p.2 hs)

theorem framePre_isOk (d : Dev) (devName : String) (leds : List String) :
    IsOk leds.length (framePre true d devName leds) := by
  apply framePre_ind (IsOk leds.length)
  · exact ⟨_, rfl, by simp⟩
  · intro f name _ hf
    split
    · rename_i i hi; exact setAt_isOk hf i off (nameToIndex_lt leds name i hi)
    · exact hf
  · intro f a c hf; exact paintAction_isOk d.cfg (indexMap leds) hf a c

/-- with checked writes the base frame is always a frame of one colour per LED — for any layout, also an empty one -/
theorem frameBase_isOk (d : Dev) (devName : String) (leds : List String) (shifted : RGB × RGB × RGB) (m : Mapping) :
    IsOk leds.length (frameBase true d devName leds shifted m) := by
  unfold frameBase
  simp only
  apply foldl_isOk
  · intro f p hf
    split
    · exact hf
    · rename_i i hi
      split
      · exact hf
      · exact setAt_isOk hf i _ (indexMap_lt leds _ i hi)
  · exact framePre_isOk d devName leds

theorem frameExt_isOk (d : Dev) (leds : List String) (m : Mapping) {f : Frame} (h : IsOk leds.length f) :
    IsOk leds.length (frameExt d leds m f) := by
  unfold frameExt
  simp only
  apply foldl_isOk
  · intro f p hf; exact paintNote_isOk leds rfl m _ _ hf
  · apply foldl_isOk _ _ _ _ h
    intro f ch hf
    apply foldl_isOk _ _ _ _ hf
    intro f p hf; exact paintNote_isOk leds rfl m _ _ hf

end Hidi.LedLemmas
