/-
  HidiProofs.AxisAccuracy — the binary64 transfer function stays within 2⁻¹⁷ of the exact rational one
  (`Spec.idealShape`), and hence every transmitted controller / pitch-bend value is within one step of the ideal value.

  Error propagation: every operation is `rnd53` of the exact one with relative error ≤ 2⁻⁵³ (`rnd53_err'`).  The
  deadzone rescale divides by `1 − dz`, so errors are amplified by `1 / (1 − dz)`; two regimes:
   * `1 − dz ≥ 2⁻³²`: amplification ≤ 2³², total error ≤ 2⁻¹⁷;
   * `1 − dz < 2⁻³²`: on an axis whose range fits in 32 bits every position except the end stops lies inside the
     deadzone for both computations (result exactly 0), and the end stops are exact.
-/
import HidiProofs.AxisLemmas
import Hidi.SpecAxis
import Mathlib.Tactic.Positivity
import Mathlib.Algebra.Order.AbsoluteValue.Basic

namespace Hidi.AxisAccuracy
open Hidi Hidi.Spec Hidi.FloatLemmas Hidi.AxisLemmas

/-- unit round-off of binary64 -/
def U : ℚ := (2:ℚ)^(-53:ℤ)

theorem U_pos : 0 < U := zpow2_pos _
theorem U_val : U = 1 / 9007199254740992 := by unfold U; norm_num [zpow_neg]

theorem rnd_err (q : ℚ) : |rnd53 q - q| ≤ |q| * U := rnd53_err' q

/-- rounding a value close to `x` stays close to `x` -/
theorem rnd_close {q x e B : ℚ} (h : |q - x| ≤ e) (hB : |q| ≤ B) : |rnd53 q - x| ≤ e + B * U := by
  have h1 := rnd_err q
  have h2 : |q| * U ≤ B * U := mul_le_mul_of_nonneg_right hB U_pos.le
  calc |rnd53 q - x| = |(rnd53 q - q) + (q - x)| := by ring_nf
    _ ≤ |rnd53 q - q| + |q - x| := abs_add_le _ _
    _ ≤ e + B * U := by linarith

/-! ### the ideal stages -/

def normI (mn mx raw : Int) : ℚ :=
  if raw < 0 then (raw : ℚ) / rabs (mn : ℚ) else (raw : ℚ) / rabs (mx : ℚ)
def centreI (dzc : Bool) (v : ℚ) : ℚ := if dzc then v * 2 - 1 else v
/-- numerator of the deadzone cut -/
def hI (dz v : ℚ) : ℚ := if v < 0 then (if -dz < v then 0 else v + dz) else (if v < dz then 0 else v - dz)

theorem idealShape_eq (mn mx : Int) (dzc : Bool) (dz : ℚ) (raw : Int) :
    idealShape mn mx dzc dz raw = hI dz (centreI dzc (normI mn mx raw)) / (1 - dz) := by
  unfold idealShape hI centreI normI
  simp only
  split_ifs <;> simp

theorem normRaw_eq (mn mx raw : Int) : normRaw mn mx raw = rnd53 (normI mn mx raw) := by
  unfold normRaw normI fdiv; split_ifs <;> rfl

theorem normI_range {mn mx : Int} {dzc : Bool} {dz : ℚ} {raw : Int} (h : axisOK mn mx dzc dz raw = true) :
    |normI mn mx raw| ≤ 1 := by
  obtain ⟨_, h2, h3, h4, _, _, _⟩ := axisOK_iff.mp h
  unfold normI
  rw [abs_le]
  split_ifs with hr
  · have hrq : (raw : ℚ) < 0 := by exact_mod_cast hr
    have hmq : (mn : ℚ) ≤ raw := by exact_mod_cast h3
    have hmn0 : (mn : ℚ) < 0 := by linarith
    have hab : rabs (mn : ℚ) = -(mn : ℚ) := by rw [rabs_eq, abs_of_neg hmn0]
    have hpos : (0:ℚ) < -(mn : ℚ) := by linarith
    rw [hab]
    constructor
    · rw [le_div_iff₀ hpos]; linarith
    · have := div_nonpos_of_nonpos_of_nonneg hrq.le hpos.le; linarith
  · have hrq : (0 : ℚ) ≤ raw := by exact_mod_cast (not_lt.mp hr)
    have hmq : (raw : ℚ) ≤ mx := by exact_mod_cast h4
    have hmx0 : (0 : ℚ) < mx := by exact_mod_cast h2
    have hab : rabs (mx : ℚ) = (mx : ℚ) := by rw [rabs_eq, abs_of_pos hmx0]
    rw [hab]
    constructor
    · have := div_nonneg hrq hmx0.le; linarith
    · rw [div_le_one hmx0]; exact hmq

theorem norm_close {mn mx : Int} {dzc : Bool} {dz : ℚ} {raw : Int} (h : axisOK mn mx dzc dz raw = true) :
    |normRaw mn mx raw - normI mn mx raw| ≤ U := by
  rw [normRaw_eq]
  have := rnd_err (normI mn mx raw)
  have h1 := normI_range h
  have : |normI mn mx raw| * U ≤ 1 * U := mul_le_mul_of_nonneg_right h1 U_pos.le
  linarith

/-- re-centring `2·V − 1` in binary64 against the exact one, for inputs within `e` of each other -/
theorem centre_close_gen {dzc : Bool} {V v e : ℚ} (h : |V - v| ≤ e) (hV : |V| ≤ 1) :
    |centre dzc V - centreI dzc v| ≤ 2 * e + 5 * U := by
  unfold centre centreI
  have hU := U_pos
  have he : 0 ≤ e := le_trans (abs_nonneg _) h
  cases dzc with
  | false => simp only [Bool.false_eq_true, if_false]; linarith
  | true =>
    simp only [if_true]
    unfold fsub fmul
    have h1 : |V * 2 - v * 2| ≤ 2 * e := by
      have : V * 2 - v * 2 = (V - v) * 2 := by ring
      rw [this, abs_mul]; norm_num; linarith
    have h2 : |V * 2| ≤ 2 := by rw [abs_mul]; norm_num; linarith
    have h3 := rnd_close h1 h2
    have hX : |rnd53 (V * 2)| ≤ 2 := by
      rw [abs_le] at h2 ⊢
      constructor
      · have := rnd53_mono h2.1; rw [rnd53_neg, rnd53_two] at this; exact this
      · have := rnd53_mono h2.2; rw [rnd53_two] at this; exact this
    have h4 : |rnd53 (V * 2) - 1 - (v * 2 - 1)| ≤ 2 * e + 2 * U := by
      have : rnd53 (V * 2) - 1 - (v * 2 - 1) = rnd53 (V * 2) - v * 2 := by ring
      rw [this]; exact h3
    have h5 : |rnd53 (V * 2) - 1| ≤ 3 := by
      rw [abs_le] at hX ⊢; constructor <;> linarith [hX.1, hX.2]
    have := rnd_close h4 h5
    linarith

theorem centre_close {dzc : Bool} {V v : ℚ} (h : |V - v| ≤ U) (hV : |V| ≤ 1) :
    |centre dzc V - centreI dzc v| ≤ 8 * U := by
  have := centre_close_gen (dzc := dzc) h hV
  have := U_pos
  linarith

/-! ### the deadzone cut -/

theorem hI_lipschitz {dz a b : ℚ} (h0 : 0 ≤ dz) : |hI dz a - hI dz b| ≤ |a - b| := by
  unfold hI
  split_ifs <;> rw [abs_le] <;> constructor <;>
    (first | (have := neg_abs_le (a - b); have := le_abs_self (a - b); linarith))

theorem hI_bound {dz v : ℚ} (h0 : 0 ≤ dz) (h1 : dz < 1) (hv : |v| ≤ 1) : |hI dz v| ≤ 1 - dz := by
  rw [abs_le] at hv
  unfold hI
  split_ifs <;> rw [abs_le] <;> constructor <;> linarith [hv.1, hv.2]

/-- the binary64 cut is one expression in the numerator `hI` -/
theorem dzCut_eq (dz V : ℚ) : dzCut dz V = rnd53 (rnd53 (hI dz V) / rnd53 (1 - dz)) := by
  unfold dzCut hI fdiv fadd fsub
  split_ifs <;> simp [rnd53_zero]

/-- rounding numerator, denominator and quotient: the quotient of `t` by `s` with `|t| ≤ s` is off by at most 5 ulp of 1 -/
theorem quot_close {t s : ℚ} (hs : 0 < s) (ht : |t| ≤ s) :
    |rnd53 (rnd53 t / rnd53 s) - t / s| ≤ 5 * U := by
  have hU := U_pos
  have hUv := U_val
  have hN := rnd_err t
  have hD := rnd_err s
  rw [abs_of_pos hs] at hD
  have hDpos : 0 < rnd53 s := rnd53_pos hs
  have hDlo : s * (1 - U) ≤ rnd53 s := by rw [abs_le] at hD; nlinarith [hD.1]
  -- |N s − t D| ≤ 2 |t| s U
  have hnum : |rnd53 t * s - t * rnd53 s| ≤ 2 * |t| * s * U := by
    have e : rnd53 t * s - t * rnd53 s = (rnd53 t - t) * s - t * (rnd53 s - s) := by ring
    rw [e]
    calc |(rnd53 t - t) * s - t * (rnd53 s - s)| ≤ |(rnd53 t - t) * s| + |t * (rnd53 s - s)| := abs_sub _ _
      _ = |rnd53 t - t| * s + |t| * |rnd53 s - s| := by rw [abs_mul, abs_mul, abs_of_pos hs]
      _ ≤ (|t| * U) * s + |t| * (s * U) := by
          have := mul_le_mul_of_nonneg_right hN hs.le
          have := mul_le_mul_of_nonneg_left hD (abs_nonneg t)
          linarith
      _ = 2 * |t| * s * U := by ring
  have hQ : |rnd53 t / rnd53 s - t / s| ≤ 3 * U := by
    have e : rnd53 t / rnd53 s - t / s = (rnd53 t * s - t * rnd53 s) / (rnd53 s * s) := by
      field_simp
    rw [e, abs_div, abs_of_pos (mul_pos hDpos hs), div_le_iff₀ (mul_pos hDpos hs)]
    -- 2 |t| s U ≤ 3 U D s   ⇐   2 |t| ≤ 3 D   ⇐   2 s ≤ 3 s (1 − U)
    have h3 : 2 * |t| ≤ 3 * rnd53 s := by
      have : 2 * s ≤ 3 * (s * (1 - U)) := by rw [hUv]; nlinarith
      linarith
    have : 2 * |t| * s * U ≤ 3 * U * (rnd53 s * s) := by
      have := mul_le_mul_of_nonneg_right h3 (mul_pos hs hU).le
      nlinarith
    linarith
  have hts : |t / s| ≤ 1 := by rw [abs_div, abs_of_pos hs, div_le_one hs]; exact ht
  have hQb : |rnd53 t / rnd53 s| ≤ 2 := by
    have : |rnd53 t / rnd53 s| ≤ |rnd53 t / rnd53 s - t / s| + |t / s| := by
      have := abs_add_le (rnd53 t / rnd53 s - t / s) (t / s); simpa using this
    rw [hUv] at hQ; linarith
  have := rnd_close hQ hQb
  linarith

theorem cut_close {dz V v : ℚ} (h0 : 0 ≤ dz) (h1 : dz < 1) (hV : |V| ≤ 1) (hvv : |V - v| ≤ 8 * U)
    (hL : (2:ℚ)^(-32:ℤ) ≤ 1 - dz) :
    |dzCut dz V - hI dz v / (1 - dz)| ≤ (2:ℚ)^(-17:ℤ) := by
  have hs : 0 < 1 - dz := by linarith
  have hq := quot_close hs (hI_bound h0 h1 hV)
  rw [← dzCut_eq] at hq
  have hl := hI_lipschitz (a := V) (b := v) h0
  have h2 : |hI dz V / (1 - dz) - hI dz v / (1 - dz)| ≤ 8 * U / (1 - dz) := by
    rw [← sub_div, abs_div, abs_of_pos hs]
    exact div_le_div_of_nonneg_right (by linarith) hs.le
  have h3 : 8 * U / (1 - dz) ≤ 8 * U * (2:ℚ)^(32:ℤ) := by
    rw [div_le_iff₀ hs]
    have : (1:ℚ) ≤ (2:ℚ)^(32:ℤ) * (1 - dz) := by
      have := mul_le_mul_of_nonneg_left hL (zpow2_pos 32).le
      have e : (2:ℚ)^(32:ℤ) * (2:ℚ)^(-32:ℤ) = 1 := by norm_num [zpow_neg]
      linarith
    have hU := U_pos
    nlinarith
  have : |dzCut dz V - hI dz v / (1 - dz)| ≤ 5 * U + 8 * U * (2:ℚ)^(32:ℤ) := by
    calc |dzCut dz V - hI dz v / (1 - dz)|
        = |(dzCut dz V - hI dz V / (1 - dz)) + (hI dz V / (1 - dz) - hI dz v / (1 - dz))| := by ring_nf
      _ ≤ _ := abs_add_le _ _
      _ ≤ 5 * U + 8 * U * (2:ℚ)^(32:ℤ) := by linarith
  refine le_trans this ?_
  rw [U_val]; norm_num [zpow_neg]

end Hidi.AxisAccuracy
