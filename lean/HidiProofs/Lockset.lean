/-
  HidiProofs.Lockset — a generic lock-discipline theorem (C16).

  Threads (indexed by a name) run straight-line programmes of `acq m`, `rel m` and `access v` (read or write) over
  mutexes with Go semantics (non-reentrant, at most one holder).  An *access table* lists, per thread, which variable
  is accessed how and with which mutexes held.  If every pair of conflicting accesses (different threads, same
  variable, at least one write) has a common mutex in the table, then in no reachable state — for no schedule — are two
  conflicting accesses of programmes conforming to the table enabled at the same time.
-/
namespace Hidi.Lockset

inductive Op
  | acq (m : String)
  | rel (m : String)
  | access (v : String) (write : Bool)
  deriving DecidableEq, Repr

structure Th where
  prog : List Op
  held : List String

abbrev Sys := String → Th

abbrev Row := String × String × Bool × List String    -- thread, variable, write?, mutexes held
abbrev Table := List Row

/-- every pair of conflicting rows shares a mutex -/
def Disciplined (t : Table) : Bool :=
  t.all (fun a => t.all (fun b =>
    a.1 = b.1 || a.2.1 ≠ b.2.1 || !(a.2.2.1 || b.2.2.1) || a.2.2.2.any (fun m => b.2.2.2.contains m)))

/-- the accesses of a programme started with `held`, each with the mutexes held when it happens (as a set: order
    and duplicates of the held list do not matter) -/
def Conforms (t : Table) (i : String) : List String → List Op → Prop
  | _, [] => True
  | h, .acq m :: r => m ∉ h ∧ Conforms t i (m :: h) r
  | h, .rel m :: r => Conforms t i (h.filter (· ≠ m)) r
  | h, .access v w :: r => (∃ hh, (i, v, w, hh) ∈ t ∧ ∀ m, m ∈ hh → m ∈ h) ∧ Conforms t i h r

def upd (s : Sys) (i : String) (t : Th) : Sys := fun k => if k = i then t else s k

inductive StepRel : Sys → Sys → Prop
  | acq (s : Sys) (i m : String) (rest : List Op) :
      (s i).prog = .acq m :: rest → (∀ j, m ∉ (s j).held) → StepRel s (upd s i ⟨rest, m :: (s i).held⟩)
  | rel (s : Sys) (i m : String) (rest : List Op) :
      (s i).prog = .rel m :: rest → StepRel s (upd s i ⟨rest, (s i).held.filter (· ≠ m)⟩)
  | access (s : Sys) (i v : String) (w : Bool) (rest : List Op) :
      (s i).prog = .access v w :: rest → StepRel s (upd s i ⟨rest, (s i).held⟩)

inductive Reach (init : Sys) : Sys → Prop
  | start : Reach init init
  | step {s s' : Sys} : Reach init s → StepRel s s' → Reach init s'

/-- two different threads are both about to access the same variable, at least one of them writing -/
def Race (s : Sys) : Prop :=
  ∃ i j v w1 w2 r1 r2, i ≠ j ∧ (s i).prog = .access v w1 :: r1 ∧ (s j).prog = .access v w2 :: r2 ∧ (w1 = true ∨ w2 = true)

structure Inv (t : Table) (s : Sys) : Prop where
  conf : ∀ i, Conforms t i (s i).held (s i).prog
  excl : ∀ i j m, i ≠ j → m ∈ (s i).held → m ∉ (s j).held

theorem step_inv {t : Table} {s s' : Sys} (h : Inv t s) (hs : StepRel s s') : Inv t s' := by
  cases hs with
  | acq i m rest hp hfree =>
    constructor
    · intro k
      unfold upd
      by_cases hk : k = i
      · subst hk
        simp only [if_true]
        have := h.conf k
        rw [hp] at this
        exact this.2
      · simp only [hk, if_false]; exact h.conf k
    · intro a b x hab hx
      unfold upd at hx ⊢
      by_cases ha : a = i
      · subst ha
        have hb : ¬ b = a := fun e => hab e.symm
        simp only [if_true] at hx
        simp only [hb, if_false]
        rcases List.mem_cons.mp hx with e | e
        · subst e; exact hfree b
        · exact h.excl a b x hab e
      · simp only [ha, if_false] at hx
        by_cases hb : b = i
        · subst hb
          simp only [if_true]
          intro hm
          rcases List.mem_cons.mp hm with e | e
          · subst e; exact hfree a hx
          · exact h.excl a b x hab hx e
        · simp only [hb, if_false]; exact h.excl a b x hab hx
  | rel i m rest hp =>
    constructor
    · intro k
      unfold upd
      by_cases hk : k = i
      · subst hk
        simp only [if_true]
        have := h.conf k
        rw [hp] at this
        exact this
      · simp only [hk, if_false]; exact h.conf k
    · intro a b x hab hx
      unfold upd at hx ⊢
      by_cases ha : a = i
      · subst ha
        have hb : ¬ b = a := fun e => hab e.symm
        simp only [if_true] at hx
        simp only [hb, if_false]
        exact h.excl a b x hab (List.mem_filter.mp hx).1
      · simp only [ha, if_false] at hx
        by_cases hb : b = i
        · subst hb
          simp only [if_true]
          intro hm
          exact h.excl a b x hab hx (List.mem_filter.mp hm).1
        · simp only [hb, if_false]; exact h.excl a b x hab hx
  | access i v w rest hp =>
    constructor
    · intro k
      unfold upd
      by_cases hk : k = i
      · subst hk
        simp only [if_true]
        have := h.conf k
        rw [hp] at this
        exact this.2
      · simp only [hk, if_false]; exact h.conf k
    · intro a b x hab hx
      unfold upd at hx ⊢
      by_cases ha : a = i
      · subst ha
        have hb : ¬ b = a := fun e => hab e.symm
        simp only [if_true] at hx
        simp only [hb, if_false]
        exact h.excl a b x hab hx
      · simp only [ha, if_false] at hx
        by_cases hb : b = i
        · subst hb; simp only [if_true]; exact h.excl a b x hab hx
        · simp only [hb, if_false]; exact h.excl a b x hab hx

theorem reach_inv {t : Table} {init s : Sys} (h0 : Inv t init) (hr : Reach init s) : Inv t s := by
  induction hr with
  | start => exact h0
  | step _ hs ih => exact step_inv ih hs

/-- **lock discipline ⇒ no race, for every schedule** -/
theorem no_race (t : Table) (hd : Disciplined t = true) (init : Sys)
    (hstart : ∀ i, (init i).held = [] ∧ Conforms t i [] (init i).prog)
    (s : Sys) (hr : Reach init s) : ¬ Race s := by
  have h0 : Inv t init := ⟨fun i => by rw [(hstart i).1]; exact (hstart i).2, fun i j m _ hm => by rw [(hstart i).1] at hm; cases hm⟩
  have hi := reach_inv h0 hr
  rintro ⟨i, j, v, w1, w2, r1, r2, hij, hp1, hp2, hw⟩
  have c1 := hi.conf i
  have c2 := hi.conf j
  rw [hp1] at c1
  rw [hp2] at c2
  obtain ⟨⟨h1, hm1, hs1⟩, -⟩ := c1
  obtain ⟨⟨h2, hm2, hs2⟩, -⟩ := c2
  unfold Disciplined at hd
  have key := List.all_eq_true.mp (List.all_eq_true.mp hd _ hm1) _ hm2
  -- the four disjuncts of the table check, one by one
  by_cases e1 : i = j
  · exact hij e1
  · have d1' : decide (i = j) = false := by simp [e1]
    have d2 : decide (¬ v = v) = false := by simp
    have d3 : (!(w1 || w2)) = false := by
      rcases hw with hw | hw <;> simp [hw]
    simp only [ne_eq, d1', d2, d3, Bool.false_or] at key
    obtain ⟨m, hm, hc⟩ := List.any_eq_true.mp key
    have hm' : m ∈ h2 := List.contains_iff_mem.mp hc
    exact hi.excl i j m hij (hs1 m hm) (hs2 m hm')

end Hidi.Lockset
