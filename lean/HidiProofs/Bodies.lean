/-
  The regenerated tie for function bodies: every Go method translated by `tools/extract/golite.go`
  (`Hidi/Gen/Bodies.lean`, regenerated on every run) computes what the hand-written model function computes.
-/
import Hidi.Gen.Bodies
set_option linter.unusedSimpArgs false
namespace Hidi.BodiesTie
open Hidi Hidi.GoLite Hidi.Gen

attribute [local simp] GSt.setOctave GSt.setSemitone GSt.setMapping GSt.setChannel GSt.setLearning GSt.setNoteTr
  GSt.setAnaTr GSt.setActTr GSt.setKeyTr GSt.setExt

theorem toGR_eq (r : Dev × List Out) (o : List Out) : toGR r o = toG r.1 (o ++ r.2) := rfl

theorem cast_mod256 (n : Nat) : ((n % 256 : Nat) : Int) = (n : Int) % 256 := by omega

/-- the twelve up / down / reset methods, CC-learning on / off -/
theorem octaveUp_eq (d : Dev) (o : List Out := []) : Body.octaveUp (toG d o) = toGR (d.invokePress .octaveUp) o := by
  simp [Body.octaveUp, Id.run, pure, toG, toGR, Dev.invokePress, wrapInt]
theorem octaveDown_eq (d : Dev) (o : List Out := []) : Body.octaveDown (toG d o) = toGR (d.invokePress .octaveDown) o := by
  simp [Body.octaveDown, Id.run, pure, toG, toGR, Dev.invokePress, wrapInt]
theorem semitoneUp_eq (d : Dev) (o : List Out := []) : Body.semitoneUp (toG d o) = toGR (d.invokePress .semitoneUp) o := by
  simp [Body.semitoneUp, Id.run, pure, toG, toGR, Dev.invokePress, wrapInt]
theorem semitoneDown_eq (d : Dev) (o : List Out := []) : Body.semitoneDown (toG d o) = toGR (d.invokePress .semitoneDown) o := by
  simp [Body.semitoneDown, Id.run, pure, toG, toGR, Dev.invokePress, wrapInt]
theorem learningOn_eq (d : Dev) (o : List Out := []) : Body.cCLearningOn (toG d o) = toGR (d.invokePress .learning) o := by
  simp [Body.cCLearningOn, Id.run, pure, toG, toGR, Dev.invokePress]
theorem learningOff_eq (d : Dev) (o : List Out := []) : Body.cCLearningOff (toG d o) = toG (d.invokeRelease .learning) o := by
  simp [Body.cCLearningOff, Id.run, pure, toG, Dev.invokeRelease]

theorem mappingUp_eq (d : Dev) (o : List Out := []) : Body.mappingUp (toG d o) = toGR (d.invokePress .mappingUp) o := by
  unfold Body.mappingUp Dev.invokePress
  simp only [Id.run, pure, GSt.setOctave, GSt.setSemitone, GSt.setMapping, GSt.setChannel, GSt.setLearning, GSt.setNoteTr, GSt.setAnaTr, GSt.setActTr, GSt.setKeyTr, GSt.setExt, toG, toGR, wrapInt, GSt.nMaps, bne_iff_ne, ne_eq]
  split <;> simp_all

theorem mappingDown_eq (d : Dev) (o : List Out := []) : Body.mappingDown (toG d o) = toGR (d.invokePress .mappingDown) o := by
  unfold Body.mappingDown Dev.invokePress
  simp only [Id.run, pure, GSt.setOctave, GSt.setSemitone, GSt.setMapping, GSt.setChannel, GSt.setLearning, GSt.setNoteTr, GSt.setAnaTr, GSt.setActTr, GSt.setKeyTr, GSt.setExt, toG, toGR, wrapInt, bne_iff_ne, ne_eq]
  by_cases h : d.mapping = 0
  · simp [h]
  · have : ¬ ((d.mapping : Int) = 0) := by omega
    simp only [this, h, not_false_eq_true, if_true, GSt.mk.injEq, and_true, true_and, List.append_nil]
    omega

theorem channelUp_eq (d : Dev) (o : List Out := []) : Body.channelUp (toG d o) = toGR (d.invokePress .channelUp) o := by
  unfold Body.channelUp Dev.invokePress
  simp only [Id.run, pure, GSt.setOctave, GSt.setSemitone, GSt.setMapping, GSt.setChannel, GSt.setLearning, GSt.setNoteTr, GSt.setAnaTr, GSt.setActTr, GSt.setKeyTr, GSt.setExt, toG, toGR, wrapU8, bne_iff_ne, ne_eq]
  by_cases h : d.channel = 15
  · simp [h]
  · have : ¬ ((d.channel : Int) = 15) := by omega
    simp only [this, h, not_false_eq_true, if_true, GSt.mk.injEq, and_true, true_and, List.append_nil]
    omega

theorem channelDown_eq (d : Dev) (hc : d.channel < 256) (o : List Out := []) : Body.channelDown (toG d o) = toGR (d.invokePress .channelDown) o := by
  unfold Body.channelDown Dev.invokePress
  simp only [Id.run, pure, GSt.setOctave, GSt.setSemitone, GSt.setMapping, GSt.setChannel, GSt.setLearning, GSt.setNoteTr, GSt.setAnaTr, GSt.setActTr, GSt.setKeyTr, GSt.setExt, toG, toGR, wrapU8, bne_iff_ne, ne_eq]
  by_cases h : d.channel = 0
  · simp [h]
  · have : ¬ ((d.channel : Int) = 0) := by omega
    simp only [this, h, not_false_eq_true, if_true, GSt.mk.injEq, and_true, true_and, List.append_nil]
    omega

/-! ### Panic -/

theorem foldl_extClear (n : Nat) (l : List Nat) : l.foldl (fun (m : List (Nat × Nat)) (i : Nat) => extClearCh m (i : Int)) [] = [] := by
  induction l with
  | nil => rfl
  | cons x r ih => simpa [extClearCh] using ih

theorem noteEv_cast (ty ch note vel : Nat) : noteEv (ty : Int) (ch : Int) (note : Int) (vel : Int) = noteEvent ty ch note vel := by
  simp [noteEv]
theorem ccEv_cast (ch fn v : Nat) : ccEv (ch : Int) (fn : Int) (v : Int) = ccEvent ch fn v := by
  simp [ccEv]

theorem panic_eq (d : Dev) (o : List Out := []) : Body.panicAction (toG d o) = toGR (d.invokePress .panic) o := by
  unfold Body.panicAction Dev.invokePress
  simp only [Id.run, pure, GSt.setOctave, GSt.setSemitone, GSt.setMapping, GSt.setChannel, GSt.setLearning, GSt.setNoteTr, GSt.setAnaTr, GSt.setActTr, GSt.setKeyTr, GSt.setExt]
  have h1 : ∀ g : GSt, (List.range' 0 (128 - 0)).foldl (fun (d : GSt) (note_ : Nat) =>
      d.emit (noteEv (stNoteOff : Int) d.channel (note_ : Int) (0 : Int))) g
      = { g with out := g.out ++ (List.range' 0 128).map (fun (n : Nat) => noteEv (stNoteOff : Int) g.channel (n : Int) 0) } := by
    intro g
    have : ∀ (l : List Nat) (g' : GSt), g'.channel = g.channel →
        l.foldl (fun (d : GSt) (note_ : Nat) => d.emit (noteEv (stNoteOff : Int) d.channel (note_ : Int) (0 : Int))) g'
        = { g' with out := g'.out ++ l.map (fun (n : Nat) => noteEv (stNoteOff : Int) g.channel (n : Int) 0) } := by
      intro l
      induction l with
      | nil => intro g' _; simp
      | cons x r ih =>
        intro g' hg
        simp only [List.foldl_cons]
        rw [ih _ (by simpa [GSt.emit] using hg)]
        simp [GSt.emit, hg]
    exact this _ g rfl
  rw [h1]
  have h2 : (List.range' 0 (16 - 0)).foldl (fun (inmap : List (Nat × Nat)) (i_ : Nat) => extClearCh inmap (i_ : Int)) [] = [] :=
    foldl_extClear 0 _
  rw [h2]
  simp only [toGR, toG, GSt.emit, panicOuts, GSt.setOctave, GSt.setSemitone, GSt.setMapping, GSt.setChannel, GSt.setLearning, GSt.setNoteTr, GSt.setAnaTr, GSt.setActTr, GSt.setKeyTr, GSt.setExt, List.nil_append, GSt.mk.injEq, and_true, true_and]
  have e0 : ((0 : Int)) = ((0 : Nat) : Int) := rfl
  have e123 : ((ccAllNotesOff : Nat) : Int) = ((123 : Nat) : Int) := rfl
  rw [e0, ccEv_cast]
  simp only [List.append_assoc, List.singleton_append, List.append_cancel_left_eq, List.cons.injEq, true_and]
  rw [List.range_eq_range']
  apply List.map_congr_left
  intro n _
  exact noteEv_cast _ _ _ _

/-- the dispatch table `actionsPress` of `NewDevice` -/
theorem invokeActionPress_eq (d : Dev) (hc : d.channel < 256) (a : Action) (o : List Out := []) :
    Body.invokeActionPress (toG d o) a = toGR (d.invokePress a) o := by
  cases a <;> simp only [Body.invokeActionPress]
  all_goals first
    | exact panic_eq d o | exact mappingUp_eq d o | exact mappingDown_eq d o | exact octaveUp_eq d o | exact octaveDown_eq d o
    | exact semitoneUp_eq d o | exact semitoneDown_eq d o | exact channelUp_eq d o | exact channelDown_eq d hc o
    | exact learningOn_eq d o | simp [toGR, toG, Dev.invokePress]

theorem invokeActionRelease_eq (d : Dev) (a : Action) (o : List Out := []) :
    Body.invokeActionRelease (toG d o) a = toG (d.invokeRelease a) o := by
  cases a <;> first | exact learningOff_eq d o | rfl

/-! ### `checkDoubleActions` -/

theorem checkDouble_eq (d : Dev) (o : List Out := []) :
    Body.checkDoubleActions (toG d o) = (toG d.checkDouble.1 o, d.checkDouble.2) := by
  unfold Body.checkDoubleActions Dev.checkDouble
  simp only [Id.run, pure, GSt.setOctave, GSt.setSemitone, GSt.setMapping, GSt.setChannel, GSt.setLearning, GSt.setNoteTr, GSt.setAnaTr, GSt.setActTr, GSt.setKeyTr, GSt.setExt, Body.mappingReset, Body.octaveReset, Body.semitoneReset, Body.channelReset, wrapInt, wrapU8]
  simp only [toG, List.contains_iff_mem, Bool.and_eq_true, decide_eq_true_eq]
  have e : ((d.actTr.length : Int) > 1) ↔ d.actTr.length > 1 := by omega
  simp only [e]
  repeat' split
  all_goals simp_all

/-! ### notes -/

theorem count_cast (d : Dev) (ch note : Nat) : (toG d).count (ch : Int) (note : Int) = d.count ch note := by
  simp [GSt.count, Dev.count, toG]

theorem chan_cast (c off : Nat) : wrapU8 (wrapU8 ((c : Int) + (off : Int)) % (16 : Int)) = ((chanOf c off : Nat) : Int) := by
  unfold wrapU8 chanOf
  omega


theorem toNat_chan (c off : Nat) : (((c : Int) + (off : Int)) % 16 % 256).toNat = chanOf c off := by
  unfold chanOf; omega

theorem noteOn_eq (d : Dev) (sub : Sub) (node : String) (code : Code) (v t : Int) :
    Body.noteOn (toG d) sub node code v t = toGR (d.noteOn sub code) := by
  unfold Body.noteOn Dev.noteOn Dev.curMap
  simp only [Id.run, pure, GSt.setOctave, GSt.setSemitone, GSt.setMapping, GSt.setChannel, GSt.setLearning, GSt.setNoteTr, GSt.setAnaTr, GSt.setActTr, GSt.setKeyTr, GSt.setExt, GSt.mapIndexOk, GSt.nMaps, GSt.keyLookup]
  have hm : (toG d).mapping = (d.mapping : Int) := rfl
  have hc : (toG d).cfg = d.cfg := rfl
  simp only [hm, hc, Int.toNat_natCast]
  cases hmap : d.cfg.maps[d.mapping]? with
  | none =>
    have : ¬ (d.mapping < d.cfg.maps.length) := by
      intro h; rw [List.getElem?_eq_getElem h] at hmap; cases hmap
    have h2 : ¬ ((d.mapping : Int) < (d.cfg.maps.length : Int)) := by omega
    simp [h2, GSt.goPanic, toGR, toG]
  | some m =>
    have : d.mapping < d.cfg.maps.length := by
      rcases Nat.lt_or_ge d.mapping d.cfg.maps.length with h | h
      · exact h
      · rw [List.getElem?_eq_none h] at hmap; cases hmap
    have h2 : ((d.mapping : Int) < (d.cfg.maps.length : Int)) := by omega
    have h3 : (0 : Int) ≤ (d.mapping : Int) := by omega
    simp only [h2, h3, decide_true, Bool.and_self, Bool.not_true, Bool.false_eq_true, if_false]
    rcases Option.eq_none_or_eq_some (alookup (sub, code) m.midi) with hk | ⟨key, hk⟩
    · simp [hk, toGR, toG]
    · simp only [hk, Bool.not_true, Bool.false_eq_true, if_false, wrapInt, Dev.transposed]
      have ho : (toG d).octave = d.octave := rfl
      have hs : (toG d).semitone = d.semitone := rfl
      simp only [ho, hs]
      by_cases hr : ((key.note : Int) + d.octave * 12 + d.semitone < 0 ∨ 127 < (key.note : Int) + d.octave * 12 + d.semitone)
      · simp [hr, toGR, toG]
      · have e1 : (((key.note : Int) + d.octave * 12 + d.semitone) % 256).toNat = ((key.note : Int) + d.octave * 12 + d.semitone).toNat := by
          omega
        have e2 : ¬ ((key.note : Int) + d.octave * 12 + d.semitone < 0 ∨ (key.note : Int) + d.octave * 12 + d.semitone > 127) := by
          omega
        simp only [e2, if_false]
        simp [GSt.emit, GSt.setCount, toGR, toG, wrapU8, GSt.count, hr, e1, noteEv, toNat_chan, Dev.setCount, Dev.count]
        cases hmode : d.cfg.mode <;> simp
        all_goals (repeat' split) <;> (try simp_all) <;> (try omega)

theorem noteOff_eq (d : Dev) (sub : Sub) (node : String) (code : Code) (v t : Int) (o : List Out := []) :
    Body.noteOff (toG d o) sub node code v t = toGR (d.noteOff code) o := by
  unfold Body.noteOff Dev.noteOff
  simp only [Id.run, pure, GSt.setOctave, GSt.setSemitone, GSt.setMapping, GSt.setChannel, GSt.setLearning, GSt.setNoteTr, GSt.setAnaTr, GSt.setActTr, GSt.setKeyTr, GSt.setExt, GSt.noteTrLookup]
  have hn : (toG d o).noteTr = d.noteTr := rfl
  have hc : (toG d o).cfg = d.cfg := rfl
  simp only [hn, hc]
  rcases Option.eq_none_or_eq_some (alookup code d.noteTr) with hk | ⟨p, hk⟩
  · simp [hk, toGR, toG]
  · obtain ⟨note, ch⟩ := p
    simp only [hk, Bool.not_true, Bool.false_eq_true, if_false]
    cases hmode : d.cfg.mode <;>
      simp only [hmode, beq_self_eq_true, Bool.or_true, Bool.true_or, if_true, GSt.emit, GSt.setCount, count_cast, noteEv_cast,
        Int.toNat_natCast, toGR, toG, Dev.setCount, wrapInt, reduceCtorEq, beq_iff_eq, Bool.or_self, Bool.false_eq_true, if_false,
        Bool.or_false, Bool.false_or, bne_iff_ne, ne_eq]
    all_goals (try (repeat' split)) <;> (try simp_all [GSt.count, Dev.count, noteEv]) <;> (try omega)

theorem analogNoteOn_eq (d : Dev) (id : Code × Bool) (note chOff : Nat) (sub : Sub) (node : String) (code : Code) (v t : Int)
    (o : List Out := []) :
    Body.analogNoteOn (toG d o) id (note : Int) (chOff : Int) sub node code v t = toGR (d.analogNoteOn id note chOff) o := by
  unfold Body.analogNoteOn Dev.analogNoteOn Dev.transposed
  simp only [Id.run, pure, GSt.setOctave, GSt.setSemitone, GSt.setMapping, GSt.setChannel, GSt.setLearning, GSt.setNoteTr, GSt.setAnaTr, GSt.setActTr, GSt.setKeyTr, GSt.setExt, wrapInt]
  have ho : (toG d o).octave = d.octave := rfl
  have hs : (toG d o).semitone = d.semitone := rfl
  simp only [ho, hs]
  by_cases hr : ((note : Int) + d.octave * 12 + d.semitone < 0 ∨ 127 < (note : Int) + d.octave * 12 + d.semitone)
  · have e2 : ((note : Int) + d.octave * 12 + d.semitone < 0 ∨ (note : Int) + d.octave * 12 + d.semitone > 127) := by omega
    simp [e2, hr, toGR, toG]
  · have e1 : (((note : Int) + d.octave * 12 + d.semitone) % 256).toNat = ((note : Int) + d.octave * 12 + d.semitone).toNat := by
      omega
    have e2 : ¬ ((note : Int) + d.octave * 12 + d.semitone < 0 ∨ (note : Int) + d.octave * 12 + d.semitone > 127) := by
      omega
    simp only [e2, if_false]
    simp [GSt.emit, toGR, toG, wrapU8, hr, e1, noteEv, toNat_chan]

theorem analogNoteOff_eq (d : Dev) (id : Code × Bool) (sub : Sub) (node : String) (code : Code) (v t : Int) (o : List Out := []) :
    Body.analogNoteOff (toG d o) id sub node code v t = toGR (d.analogNoteOff id) o := by
  unfold Body.analogNoteOff Dev.analogNoteOff
  simp only [Id.run, pure, GSt.setOctave, GSt.setSemitone, GSt.setMapping, GSt.setChannel, GSt.setLearning, GSt.setNoteTr, GSt.setAnaTr, GSt.setActTr, GSt.setKeyTr, GSt.setExt, GSt.anaTrLookup]
  have hn : (toG d o).anaTr = d.anaTr := rfl
  simp only [hn]
  rcases Option.eq_none_or_eq_some (alookup id d.anaTr) with hk | ⟨p, hk⟩
  · simp [hk, toGR, toG]
  · obtain ⟨note, ch⟩ := p
    simp [hk, GSt.emit, toGR, toG, noteEv]

/-! ### the exit sequence -/

theorem checkExit_eq (d : Dev) :
    Body.checkExitSequence (toG d) = (if d.exitComplete then (toG d).emit .sig else toG d, d.exitComplete) := by
  unfold Body.checkExitSequence Dev.exitComplete
  simp only [Id.run, pure, GSt.setOctave, GSt.setSemitone, GSt.setMapping, GSt.setChannel, GSt.setLearning, GSt.setNoteTr, GSt.setAnaTr, GSt.setActTr, GSt.setKeyTr, GSt.setExt]
  have hc : (toG d).cfg = d.cfg := rfl
  have hk : (toG d).keyTr = d.keyTr := rfl
  simp only [hc, hk]
  by_cases he : d.cfg.exitSeq = []
  · simp [he]
  · have : ¬ ((d.cfg.exitSeq.length : Int) = 0) := by
      have := List.length_pos_iff.mpr he
      omega
    simp only [beq_iff_eq, this, if_false]
    by_cases hx : ∃ x, x ∈ d.cfg.exitSeq ∧ ¬ x ∈ d.keyTr
    · simp [he, hx]
      intro hall
      obtain ⟨x, h1, h2⟩ := hx
      exact absurd (hall x h1) h2
    · have hx' : ∀ x ∈ d.cfg.exitSeq, x ∈ d.keyTr := by
        intro x h1
        rcases Decidable.em (x ∈ d.keyTr) with h | h
        · exact h
        · exact absurd ⟨x, h1, h⟩ hx
      simp [he, hx]
      exact hx'

/-! ### `handleKEYEvent` -/

theorem toG_setKeyTr (d : Dev) (x : List Code) (o : List Out := []) : (toG d o).setKeyTr x = toG { d with keyTr := x } o := rfl
theorem toG_setActTr (d : Dev) (x : List Action) (o : List Out := []) : (toG d o).setActTr x = toG { d with actTr := x } o := rfl
theorem toG_actTr (d : Dev) (o : List Out := []) : (toG d o).actTr = d.actTr := rfl
theorem toG_noteTr (d : Dev) : (toG d).noteTr = d.noteTr := rfl
theorem toG_multinote (d : Dev) : multinoteP (toG d) = toG d.multinote := by
  unfold multinoteP Dev.multinote
  simp only [toG_noteTr]
  generalize sortInts (d.noteTr.map (fun p => (p.2.1 : Int))) = l
  rcases l with _ | ⟨a, _ | ⟨b, r⟩⟩ <;> rfl

theorem foldl_snoc_map {α β : Type} (f : α → β) (l : List α) (acc : List β) :
    l.foldl (fun acc x => acc ++ [f x]) acc = acc ++ l.map f := by
  induction l generalizing acc with
  | nil => simp
  | cons x r ih => simp [ih]

theorem insertSorted_length (x : Int) (l : List Int) : (insertSorted x l).length = l.length + 1 := by
  induction l with
  | nil => rfl
  | cons y r ih =>
    unfold insertSorted
    split
    · rfl
    · simp [ih]

theorem sortInts_length (l : List Int) : (sortInts l).length = l.length := by
  unfold sortInts
  induction l with
  | nil => rfl
  | cons x r ih => simp only [List.foldr_cons, insertSorted_length, ih, List.length_cons]

/-- the translated `Multinote` (device.go) is the model's: the pressed notes collected from the tracker, none or one of them
    disengages, otherwise sorted and differenced against the lowest -/
theorem Multinote_eq (g : GSt) : Body.Multinote g = multinoteP g := by
  unfold Body.Multinote multinoteP
  simp only [Id.run, pure, bind, wrapInt, foldl_snoc_map, List.nil_append]
  have hl := sortInts_length (g.noteTr.map (fun p => ((p.2.1 : Nat) : Int)))
  generalize hL : g.noteTr.map (fun p => ((p.2.1 : Nat) : Int)) = L at hl ⊢
  rcases L with _ | ⟨a, _ | ⟨b, r⟩⟩
  · rfl
  · simp only [List.length_cons, List.length_nil]
    rfl
  · simp only [List.length_cons] at hl ⊢
    generalize sortInts (a :: b :: r) = S at hl ⊢
    rcases S with _ | ⟨x, _ | ⟨y, t⟩⟩
    · simp at hl
    · simp at hl
    · have h0 : ¬ ((r.length : Int) + 1 + 1 = 0) := by omega
      have h1 : ¬ ((r.length : Int) + 1 + 1 = 1) := by omega
      simp [h0, h1, GSt.setMulti, foldl_snoc_map]

theorem checkDouble_channel_lt (d : Dev) (h : d.channel < 256) : d.checkDouble.1.channel < 256 := by
  unfold Dev.checkDouble
  repeat' split
  all_goals simp_all

theorem toGR_toG (d : Dev) : toG d = toGR (d, []) := rfl

theorem handleKey_eq (d : Dev) (hch : d.channel < 256) (sub : Sub) (node : String) (code : Code) (v t : Int) :
    Body.handleKEYEvent (toG d) sub node code v t = toGR (d.handleKey sub code v) := by
  unfold Body.handleKEYEvent Dev.handleKey Dev.curMap
  simp only [Id.run, pure, GSt.mapIndexOk, GSt.nMaps, GSt.keyLookup, GSt.actionLookup, GSt.noteTrLookup]
  have hm : (toG d).mapping = (d.mapping : Int) := rfl
  have hc : (toG d).cfg = d.cfg := rfl
  have hkt : (toG d).keyTr = d.keyTr := rfl
  simp only [hm, hc, hkt, Int.toNat_natCast, toG_setKeyTr]
  rcases Option.eq_none_or_eq_some (d.cfg.maps[d.mapping]?) with hmap | ⟨m, hmap⟩
  · have : ¬ (d.mapping < d.cfg.maps.length) := by
      intro h; rw [List.getElem?_eq_getElem h] at hmap; cases hmap
    have h2 : ¬ ((d.mapping : Int) < (d.cfg.maps.length : Int)) := by omega
    simp [hmap, h2, GSt.goPanic, toGR, toG]
  · have : d.mapping < d.cfg.maps.length := by
      rcases Nat.lt_or_ge d.mapping d.cfg.maps.length with h | h
      · exact h
      · rw [List.getElem?_eq_none h] at hmap; cases hmap
    have h2 : ((d.mapping : Int) < (d.cfg.maps.length : Int)) := by omega
    have h3 : (0 : Int) ≤ (d.mapping : Int) := by omega
    simp only [hmap, h2, h3, decide_true, Bool.and_self, Bool.not_true, Bool.false_eq_true, if_false]
    by_cases hv1 : v = 1
    · subst hv1
      obtain ⟨d1, hd1⟩ : ∃ d1 : Dev, d1 = { d with keyTr := sinsert code d.keyTr } := ⟨_, rfl⟩
      have c1 : d1.cfg = d.cfg := by rw [hd1]
      have c2 : d1.channel = d.channel := by rw [hd1]
      simp only [← hd1, beq_self_eq_true, if_true, checkExit_eq]
      by_cases hx : d1.exitComplete = true
      · simp [hx, toGR, GSt.emit, toG]
      · simp only [hx, if_false, Bool.false_eq_true]
        rcases Option.eq_none_or_eq_some (alookup code d.cfg.actions) with ha | ⟨a, ha⟩
        · simp only [ha, Bool.false_eq_true, if_false]
          rcases Option.eq_none_or_eq_some (alookup (sub, code) m.midi) with hk | ⟨key, hk⟩
          · simp [hk, toGR_toG]
          · simp [hk, noteOn_eq]
        · simp only [ha, if_true, toG_setActTr, toG_actTr, checkDouble_eq]
          by_cases hdb : ({ d1 with actTr := sinsert a d1.actTr } : Dev).checkDouble.2 = true
          · simp [hdb, toGR_toG]
          · have : ({ d1 with actTr := sinsert a d1.actTr } : Dev).checkDouble.1.channel < 256 :=
              checkDouble_channel_lt _ (by simp [c2, hch])
            simp [hdb, invokeActionPress_eq _ this]
    · have hv1' : (v == 1) = false := by simpa using hv1
      obtain ⟨d1, hd1⟩ : ∃ d1 : Dev, d1 = { d with keyTr := serase code d.keyTr } := ⟨_, rfl⟩
      have c1 : d1.cfg = d.cfg := by rw [hd1]
      have c3 : d1.noteTr = d.noteTr := by rw [hd1]
      simp only [← hd1, hv1', hv1, Bool.false_eq_true, if_false, false_and]
      rcases Option.eq_none_or_eq_some (alookup code d.cfg.actions) with ha | ⟨a, ha⟩
      · simp only [ha, Bool.false_eq_true, if_false]
        rcases Option.eq_none_or_eq_some (alookup (sub, code) m.midi) with hk | ⟨key, hk⟩
        · simp only [hk, Bool.false_eq_true, if_false, Option.isSome_none]
          by_cases hv0 : v = 0
          · subst hv0
            simp only [beq_self_eq_true, if_true, toG_noteTr, c3]
            rcases Option.eq_none_or_eq_some (alookup code d.noteTr) with ht | ⟨p, ht⟩
            · have : d1.noteOff code = (d1, []) := by
                unfold Dev.noteOff; rw [c3, ht]
              simp [ht, this, toGR_toG]
            · simp [ht, noteOff_eq]
          · have hv0' : (v == 0) = false := by simpa using hv0
            simp [hv0, hv0', toGR_toG]
        · simp only [hk, if_true, Option.isSome_some]
          by_cases hv0 : v = 0
          · subst hv0
            simp [noteOff_eq]
          · have hv0' : (v == 0) = false := by simpa using hv0
            simp [hv0, hv0', toGR_toG]
      · simp only [ha, if_true]
        by_cases hv0 : v = 0
        · subst hv0
          simp only [beq_self_eq_true, if_true]
          by_cases hmn : a = .multinote
          · subst hmn
            simp only [beq_self_eq_true, if_true, Multinote_eq, toG_multinote, invokeActionRelease_eq, toG_setActTr, toG_actTr]
            rfl
          · have : (a == Action.multinote) = false := by simpa using hmn
            simp only [this, hmn, Bool.false_eq_true, if_false, invokeActionRelease_eq, toG_setActTr, toG_actTr]
            rfl
        · have hv0' : (v == 0) = false := by simpa using hv0
          simp [hv0, hv0', toGR_toG]

end Hidi.BodiesTie
