/-
  The regenerated disconnect clean-up of `ProcessEvents` (events.go: the statements between
  `d.eventProcessMutex.Lock()` and `.Unlock()` after the event loop, translated by tools/extract/golite.go as
  `Body.cleanupBody`) computes the model's `Dev.cleanupWith` over the tracked keys and identifiers.
-/
import HidiProofs.Bodies
set_option linter.unusedSimpArgs false
namespace Hidi.BodiesTie
open Hidi Hidi.GoLite Hidi.Gen

theorem foldl_noteOff (order : List Code) : ∀ (d : Dev) (o : List Out),
    order.foldl (fun (g : GSt) (c : Code) => Body.noteOff g ("" : Sub) "" c (0 : Int) (1 : Int)) (toG d o) =
      toGR (order.foldl (fun (acc : Dev × List Out) c => let (d', o') := acc.1.noteOff c; (d', acc.2 ++ o')) (d, [])) o := by
  induction order with
  | nil => intro d o; simp [toGR, toG]
  | cons c r ih =>
    intro d o
    simp only [List.foldl_cons, noteOff_eq, toGR_eq]
    rw [ih]
    -- the model's accumulator started from (d1, o1) instead of (d1, [])
    have acc : ∀ (l : List Code) (e : Dev) (p : List Out),
        l.foldl (fun (acc : Dev × List Out) c => let (d', o') := acc.1.noteOff c; (d', acc.2 ++ o')) (e, p) =
          ((l.foldl (fun (acc : Dev × List Out) c => let (d', o') := acc.1.noteOff c; (d', acc.2 ++ o')) (e, [])).1,
            p ++ (l.foldl (fun (acc : Dev × List Out) c => let (d', o') := acc.1.noteOff c; (d', acc.2 ++ o')) (e, [])).2) := by
      intro l
      induction l with
      | nil => intro e p; simp
      | cons x xs ih2 =>
        intro e p
        simp only [List.foldl_cons, List.nil_append]
        rw [ih2 _ (p ++ _), ih2 _ (e.noteOff x).2]
        simp [List.append_assoc]
    rw [acc r (d.noteOff c).1 ([] ++ (d.noteOff c).2)]
    simp [toGR, toG, List.append_assoc]

theorem foldl_anaOff (order : List (Code × Bool)) : ∀ (d : Dev) (o : List Out),
    order.foldl (fun (g : GSt) (c : Code × Bool) => Body.analogNoteOff g c ("" : Sub) "" (0 : Code) (0 : Int) (0 : Int)) (toG d o) =
      toGR (order.foldl (fun (acc : Dev × List Out) c => let (d', o') := acc.1.analogNoteOff c; (d', acc.2 ++ o')) (d, [])) o := by
  induction order with
  | nil => intro d o; simp [toGR, toG]
  | cons c r ih =>
    intro d o
    simp only [List.foldl_cons, analogNoteOff_eq, toGR_eq]
    rw [ih]
    have acc : ∀ (l : List (Code × Bool)) (e : Dev) (p : List Out),
        l.foldl (fun (acc : Dev × List Out) c => let (d', o') := acc.1.analogNoteOff c; (d', acc.2 ++ o')) (e, p) =
          ((l.foldl (fun (acc : Dev × List Out) c => let (d', o') := acc.1.analogNoteOff c; (d', acc.2 ++ o')) (e, [])).1,
            p ++ (l.foldl (fun (acc : Dev × List Out) c => let (d', o') := acc.1.analogNoteOff c; (d', acc.2 ++ o')) (e, [])).2) := by
      intro l
      induction l with
      | nil => intro e p; simp
      | cons x xs ih2 =>
        intro e p
        simp only [List.foldl_cons, List.nil_append]
        rw [ih2 _ (p ++ _), ih2 _ (e.analogNoteOff x).2]
        simp [List.append_assoc]
    rw [acc r (d.analogNoteOff c).1 ([] ++ (d.analogNoteOff c).2)]
    simp [toGR, toG, List.append_assoc]

theorem noteOff_anaTr (d : Dev) (c : Code) : (d.noteOff c).1.anaTr = d.anaTr := by
  unfold Dev.noteOff
  split
  · rfl
  · simp [Dev.setCount]

theorem foldl_noteOff_anaTr (order : List Code) : ∀ (d : Dev) (p : List Out),
    (order.foldl (fun (acc : Dev × List Out) c => let (d', o') := acc.1.noteOff c; (d', acc.2 ++ o')) (d, p)).1.anaTr = d.anaTr := by
  induction order with
  | nil => intro d p; rfl
  | cons c r ih => intro d p; simp only [List.foldl_cons]; rw [ih, noteOff_anaTr]

/-- the disconnect clean-up of `ProcessEvents` -/
theorem cleanup_eq (d : Dev) :
    Body.cleanupBody (toG d) = toGR (d.cleanupWith (akeys d.noteTr) (akeys d.anaTr)) := by
  unfold Body.cleanupBody Dev.cleanupWith
  simp only [Id.run, pure]
  have hn : (toG d).noteTr = d.noteTr := rfl
  rw [hn, foldl_noteOff (akeys d.noteTr) d []]
  simp only [toGR_eq]
  have ha : ∀ (e : Dev) (o : List Out), (toG e o).anaTr = e.anaTr := fun _ _ => rfl
  rw [ha, foldl_noteOff_anaTr, foldl_anaOff]
  simp [toGR, toG]
end Hidi.BodiesTie
