/-
  HidiProofs.EngineSimBase — list / association-list / receiver lemmas used by the simulation
  proof between the device model (`Hidi.Engine`) and the trace monitors (`Hidi.Spec`).
-/
import Hidi.SpecAxis
namespace Hidi.EngineSim
open Hidi Hidi.Spec

/-! ### association lists -/

section alist
variable {κ α : Type} [DecidableEq κ]

theorem mem_aerase {k : κ} {l : List (κ × α)} {p : κ × α} :
    p ∈ aerase k l ↔ p ∈ l ∧ p.1 ≠ k := by
  simp [aerase, List.mem_filter]

theorem aerase_of_not_mem {k : κ} {l : List (κ × α)} (h : k ∉ akeys l) : aerase k l = l := by
  unfold aerase
  rw [List.filter_eq_self]
  intro p hp
  have : p.1 ≠ k := by
    intro e; apply h; unfold akeys; rw [← e]; exact List.mem_map_of_mem hp
  simpa using this

theorem mem_ainsert {k : κ} {a : α} {l : List (κ × α)} {p : κ × α} :
    p ∈ ainsert k a l ↔ (p ∈ l ∧ p.1 ≠ k) ∨ p = (k, a) := by
  simp [ainsert, mem_aerase]

theorem aerase_cons_self {k : κ} {a : α} {r : List (κ × α)} : aerase k ((k, a) :: r) = aerase k r := by
  simp [aerase]

theorem aerase_cons_ne {k k' : κ} {a : α} {r : List (κ × α)} (h : k' ≠ k) :
    aerase k ((k', a) :: r) = (k', a) :: aerase k r := by
  simp [aerase, h]

theorem akeys_aerase {k : κ} {l : List (κ × α)} : akeys (aerase k l) = (akeys l).filter (· ≠ k) := by
  induction l with
  | nil => rfl
  | cons p r ih =>
    obtain ⟨k', a⟩ := p
    by_cases h : k' = k
    · subst h; rw [aerase_cons_self, ih]; simp [akeys]
    · rw [aerase_cons_ne h]; simp only [akeys] at ih ⊢; simp [h, ih]

theorem mem_akeys_aerase {k k' : κ} {l : List (κ × α)} :
    k' ∈ akeys (aerase k l) ↔ k' ∈ akeys l ∧ k' ≠ k := by
  rw [akeys_aerase]; simp [List.mem_filter]

theorem nodup_akeys_aerase {k : κ} {l : List (κ × α)} (h : (akeys l).Nodup) : (akeys (aerase k l)).Nodup := by
  rw [akeys_aerase]; exact h.filter _

theorem akeys_ainsert {k : κ} {a : α} {l : List (κ × α)} : akeys (ainsert k a l) = akeys (aerase k l) ++ [k] := by
  simp [akeys, ainsert]

theorem nodup_akeys_ainsert {k : κ} {a : α} {l : List (κ × α)} (h : (akeys l).Nodup) :
    (akeys (ainsert k a l)).Nodup := by
  rw [akeys_ainsert, List.nodup_append]
  refine ⟨nodup_akeys_aerase h, by simp, ?_⟩
  intro x hx y hy
  simp at hy
  rw [mem_akeys_aerase] at hx
  rw [hy]; exact hx.2

theorem mem_akeys_ainsert {k k' : κ} {a : α} {l : List (κ × α)} :
    k' ∈ akeys (ainsert k a l) ↔ k' ∈ akeys l ∨ k' = k := by
  rw [akeys_ainsert, List.mem_append, mem_akeys_aerase]
  by_cases h : k' = k <;> simp [h]

theorem alookup_eq_none {k : κ} {l : List (κ × α)} : alookup k l = none ↔ k ∉ akeys l := by
  induction l with
  | nil => simp [alookup, akeys]
  | cons p r ih =>
    obtain ⟨k', a⟩ := p
    by_cases h : k' = k
    · simp [alookup, akeys, h]
    · have h' : ¬ k = k' := fun e => h e.symm
      simp only [alookup, h, if_false, ih, akeys, List.map_cons, List.mem_cons, h', false_or]

theorem alookup_mem {k : κ} {a : α} {l : List (κ × α)} (h : alookup k l = some a) : (k, a) ∈ l := by
  induction l with
  | nil => simp [alookup] at h
  | cons p r ih =>
    obtain ⟨k', a'⟩ := p
    by_cases hk : k' = k
    · simp [alookup, hk] at h; simp [hk, h]
    · simp [alookup, hk] at h; exact List.mem_cons_of_mem _ (ih h)

theorem alookup_of_mem_nodup {k : κ} {a : α} {l : List (κ × α)} (hn : (akeys l).Nodup) (h : (k, a) ∈ l) :
    alookup k l = some a := by
  induction l with
  | nil => simp at h
  | cons p r ih =>
    obtain ⟨k', a'⟩ := p
    simp only [akeys, List.map_cons, List.nodup_cons] at hn
    rcases List.mem_cons.mp h with e | hr
    · cases e; simp [alookup]
    · have : k' ≠ k := by
        intro e; apply hn.1; rw [e]; exact List.mem_map_of_mem (f := (·.1)) hr
      simp only [alookup, this, if_false]; exact ih hn.2 hr

theorem alookup_append {k : κ} {l1 l2 : List (κ × α)} :
    alookup k (l1 ++ l2) = (alookup k l1 <|> alookup k l2) := by
  induction l1 with
  | nil => simp [alookup]
  | cons p r ih =>
    obtain ⟨k', a'⟩ := p
    by_cases h : k' = k
    · simp [alookup, h]
    · simp [alookup, h, ih]

theorem alookup_aerase_self {k : κ} {l : List (κ × α)} : alookup k (aerase k l) = none := by
  rw [alookup_eq_none, mem_akeys_aerase]; simp

theorem alookup_aerase_ne {k k' : κ} {l : List (κ × α)} (h : k' ≠ k) :
    alookup k' (aerase k l) = alookup k' l := by
  induction l with
  | nil => rfl
  | cons p r ih =>
    obtain ⟨k2, a2⟩ := p
    by_cases h2 : k2 = k
    · subst h2
      rw [aerase_cons_self, ih]; simp [alookup, Ne.symm h]
    · rw [aerase_cons_ne h2]; simp only [alookup, ih]

theorem alookup_ainsert_self {k : κ} {a : α} {l : List (κ × α)} : alookup k (ainsert k a l) = some a := by
  unfold ainsert
  rw [alookup_append, alookup_aerase_self]
  simp [alookup]

theorem alookup_ainsert_ne {k k' : κ} {a : α} {l : List (κ × α)} (h : k' ≠ k) :
    alookup k' (ainsert k a l) = alookup k' l := by
  unfold ainsert
  rw [alookup_append, alookup_aerase_ne h]
  cases alookup k' l <;> simp [alookup, Ne.symm h]

end alist

/-! ### sets as lists -/

theorem mem_sinsert {α} [DecidableEq α] {a x : α} {l : List α} : x ∈ sinsert a l ↔ x ∈ l ∨ x = a := by
  unfold sinsert
  split
  · constructor
    · exact Or.inl
    · rintro (h | h); exact h; rw [h]; assumption
  · simp

theorem mem_serase {α} [DecidableEq α] {a x : α} {l : List α} : x ∈ serase a l ↔ x ∈ l ∧ x ≠ a := by
  simp [serase, List.mem_filter]

/-! ### holders -/

theorem holders_aerase_of_lookup {l : List (Code × (Nat × Nat))} {c : Code} {q : Nat × Nat}
    (hn : (akeys l).Nodup) (h : alookup c l = some q) (p : Nat × Nat) :
    holders l p = holders (aerase c l) p + (if q = p then 1 else 0) := by
  induction l with
  | nil => simp [alookup] at h
  | cons x r ih =>
    obtain ⟨k', q'⟩ := x
    simp only [akeys, List.map_cons, List.nodup_cons] at hn
    by_cases hk : k' = c
    · simp [alookup, hk] at h
      subst hk; subst h
      have hr : aerase k' ((k', q') :: r) = r := by
        have : aerase k' r = r := aerase_of_not_mem hn.1
        simp [aerase, List.filter_cons] at this ⊢
        exact this
      rw [hr]
      unfold holders
      by_cases e : q' = p <;> simp [List.filter_cons, e]
    · simp [alookup, hk] at h
      have := ih hn.2 h
      have hr : aerase c ((k', q') :: r) = (k', q') :: aerase c r := by
        simp [aerase, List.filter_cons, hk]
      rw [hr]
      unfold holders at this ⊢
      by_cases e : q' = p <;> simp [List.filter_cons, e] <;> omega

theorem holders_ainsert {l : List (Code × (Nat × Nat))} {c : Code} {q : Nat × Nat} (p : Nat × Nat) :
    holders (ainsert c q l) p = holders (aerase c l) p + (if q = p then 1 else 0) := by
  unfold holders ainsert
  by_cases e : q = p <;> simp [List.filter_append, List.filter_cons, e]

theorem holders_pos_iff {l : List (Code × (Nat × Nat))} {p : Nat × Nat} :
    0 < holders l p ↔ ∃ k, (k, p) ∈ l := by
  unfold holders
  rw [List.length_pos_iff_exists_mem]
  constructor
  · rintro ⟨⟨k, q⟩, hx⟩
    simp [List.mem_filter] at hx
    exact ⟨k, by rw [← hx.2]; exact hx.1⟩
  · rintro ⟨k, hk⟩
    exact ⟨(k, p), by simp [List.mem_filter, hk]⟩

/-! ### bit-level facts -/

theorem lor90 : ∀ ch, ch < 16 → (0x90 ||| ch) % 256 = 0x90 + ch := by decide
theorem lor80 : ∀ ch, ch < 16 → (0x80 ||| ch) % 256 = 0x80 + ch := by decide
theorem lorB0 : ∀ ch, ch < 16 → (0xB0 ||| ch) % 256 = 0xB0 + ch := by decide

theorem noteEvent_on {ch n v : Nat} (h : ch < 16) : noteEvent stNoteOn ch n v = noteOnMsg ch n v := by
  simp [noteEvent, stNoteOn, noteOnMsg, lor90 ch h]

theorem noteEvent_off {ch n : Nat} (h : ch < 16) : noteEvent stNoteOff ch n 0 = noteOffMsg ch n := by
  simp [noteEvent, stNoteOff, noteOffMsg, lor80 ch h]

theorem panicOuts_eq {ch : Nat} (h : ch < 16) : panicOuts ch = panicMsgs ch := by
  unfold panicOuts panicMsgs ccEvent noteEvent stCC stNoteOff ccAllNotesOff
  rw [lorB0 ch h, lor80 ch h]

/-! ### the receiver -/

theorem recv_on {s : List (Nat × Nat)} {ch n v : Nat} (hc : ch < 16) (hv : 0 < v) :
    recv s (noteOnMsg ch n v) = sinsert (ch, n) s := by
  have h1 : (0x90 + ch) / 16 = 9 := by omega
  have h2 : (0x90 + ch) % 16 = ch := by omega
  simp only [recv, noteOnMsg, h1, h2]
  simp [hv]

theorem recv_off {s : List (Nat × Nat)} {ch n : Nat} (hc : ch < 16) :
    recv s (noteOffMsg ch n) = serase (ch, n) s := by
  have h1 : (0x80 + ch) / 16 = 8 := by omega
  have h2 : (0x80 + ch) % 16 = ch := by omega
  simp only [recv, noteOffMsg, h1, h2]
  simp

/-- a message that is not a sounding Note On never adds to what sounds -/
def quiet : Out → Bool
  | .midi a _ c => !(a / 16 = 9 ∧ c > 0)
  | _ => true

theorem recv_quiet_subset {s : List (Nat × Nat)} {o : Out} (h : quiet o = true) : ∀ p ∈ recv s o, p ∈ s := by
  intro p hp
  cases o with
  | midi a b c =>
    simp only [quiet, Bool.not_eq_true', decide_eq_false_iff_not] at h
    simp only [recv, h, if_false] at hp
    split at hp
    · exact (mem_serase.mp hp).1
    · split at hp
      · exact (List.mem_filter.mp hp).1
      · exact hp
  | sig => exact hp
  | panic => exact hp

theorem sounding_quiet_subset {outs : List Out} : ∀ {s : List (Nat × Nat)}, outs.all quiet = true →
    ∀ p ∈ sounding s outs, p ∈ s := by
  induction outs with
  | nil => intro s _ p hp; exact hp
  | cons o r ih =>
    intro s h p hp
    simp only [List.all_cons, Bool.and_eq_true] at h
    simp only [sounding, List.foldl_cons] at hp
    exact recv_quiet_subset h.1 p (ih h.2 p hp)

theorem sounding_append (s : List (Nat × Nat)) (a b : List Out) :
    sounding s (a ++ b) = sounding (sounding s a) b := by
  simp [sounding, List.foldl_append]

theorem panicMsgs_quiet (ch : Nat) : (panicMsgs ch).all quiet = true := by
  have h2 : ¬ ((0xB0 + ch) / 16 = 9 ∧ 0 > 0) := by omega
  simp [panicMsgs, quiet]

theorem panicMsgs_wf {ch : Nat} (h : ch < 16) : (panicMsgs ch).all wellFormed = true := by
  have h1 : (0xB0 + ch) / 16 = 11 := by omega
  have h2 : (0x80 + ch) / 16 = 8 := by omega
  have h3 : 0xB0 + ch < 256 := by omega
  have h4 : 0x80 + ch < 256 := by omega
  simp [panicMsgs, wellFormed, h1, h2]
  refine ⟨by omega, ?_⟩
  intro x hx; omega

theorem panicMsgs_isMidi_sig (ch : Nat) : sigCount (panicMsgs ch) = 0 := by
  simp [sigCount, panicMsgs]

theorem panicMsgs_no_panic (ch : Nat) : (panicMsgs ch).contains Out.panic = false := by
  simp [panicMsgs]

theorem noteOn_wf {ch n v : Nat} (hc : ch < 16) (hn : n ≤ 127) (hv : v ≤ 127) :
    wellFormed (noteOnMsg ch n v) = true := by
  have h1 : (0x90 + ch) / 16 = 9 := by omega
  simp [wellFormed, noteOnMsg, h1]; omega

theorem noteOff_wf {ch n : Nat} (hc : ch < 16) (hn : n ≤ 127) :
    wellFormed (noteOffMsg ch n) = true := by
  have h1 : (0x80 + ch) / 16 = 8 := by omega
  simp [wellFormed, noteOffMsg, h1]; omega

end Hidi.EngineSim
