/-
  HidiProofs.KInvReach — every state reached by a history of any event kinds (keys, axes, SYN, MIDI input) satisfies
  `KInv` as long as the device has not crashed; so every per-event theorem about the key handler proved under `DInv`
  holds in all those states (through `AnaIndep.handleKey_split`).
-/
import HidiProofs.AnaIndep
import HidiProofs.Props.C14mixed
namespace Hidi.KInvReach
open Hidi Hidi.Spec Hidi.EngineSim Hidi.AnaIndep Hidi.Props.C05 Hidi.Props.C14

/-! ### nothing changes the velocity -/

theorem noteOn_vel (d : Dev) (sub : Sub) (code : Code) : (d.noteOn sub code).1.velocity = d.velocity := by
  unfold Dev.noteOn Dev.setCount
  split
  · rfl
  · split
    · rfl
    · simp only
      split_ifs <;> rfl

theorem noteOff_vel (d : Dev) (code : Code) : (d.noteOff code).1.velocity = d.velocity := by
  unfold Dev.noteOff Dev.setCount
  split <;> rfl

theorem actPress_vel (d : Dev) (a : Action) : (actPress d a).1.velocity = d.velocity := by
  unfold actPress
  simp only
  split_ifs
  · exact (checkDouble_frame _).velocity
  · rw [(invokePress_frame _ a).velocity]; exact (checkDouble_frame _).velocity

theorem handleKey_vel (d : Dev) (sub : Sub) (code : Code) (val : Int) :
    (d.handleKey sub code val).1.velocity = d.velocity := by
  cases hm : d.curMap with
  | none => unfold Dev.handleKey; rw [hm]
  | some m =>
    rw [handleKey_eq0 hm]
    have hk : (kt d code val).velocity = d.velocity := (kt_frame d code val).2.2.2.2.1
    split_ifs <;> (try split) <;> first
      | exact hk
      | (rw [actPress_vel]; exact hk)
      | (rw [(actRelease_frame _ _).2.2.2.2.1]; exact hk)
      | (rw [noteOn_vel]; exact hk)
      | (rw [noteOff_vel]; exact hk)

theorem analogNoteOn_vel (d : Dev) (id : Code × Bool) (n c : Nat) : (d.analogNoteOn id n c).1.velocity = d.velocity := by
  unfold Dev.analogNoteOn
  simp only
  split_ifs <;> rfl

theorem analogNoteOff_vel (d : Dev) (id : Code × Bool) : (d.analogNoteOff id).1.velocity = d.velocity := by
  unfold Dev.analogNoteOff
  split <;> rfl

theorem releaseAxis_vel (d : Dev) (code : Code) : (d.releaseAxis code).1.velocity = d.velocity := by
  rw [Hidi.AxisKeyLemmas.releaseAxis_frame d code]

theorem bidirCC_vel (d : Dev) (a : Analog) (neg : Bool) (adj : Rat) : (d.bidirCC a neg adj).1.velocity = d.velocity := by
  unfold Dev.bidirCC Dev.setZeroed
  simp only
  split_ifs <;> rfl

theorem absCC_vel (d : Dev) (a : Analog) (canNeg : Bool) (v : Rat) : (d.absCC a canNeg v).1.velocity = d.velocity := by
  unfold Dev.absCC
  simp only
  split_ifs <;> first | exact bidirCC_vel _ _ _ _ | rfl

theorem absKey_vel (d : Dev) (a : Analog) (code : Code) (canNeg : Bool) (v : Rat) :
    (d.absKey a code canNeg v).1.velocity = d.velocity := by
  rw [(Hidi.Props.C08.C08_frame_strong d a code canNeg v).1]

theorem absAction_vel (d : Dev) (a : Analog) (canNeg : Bool) (v : Rat) :
    (d.absAction a canNeg v).1.velocity = d.velocity := by
  have hc := (checkDouble_frame d).velocity
  unfold Dev.absAction
  simp only
  split_ifs <;> first
    | exact hc
    | (simp only [(invokeRelease_frame _ _).2.2.2.2.1, (invokePress_frame _ _).velocity]; exact hc)

theorem handleAbs_vel (d : Dev) (sub : Sub) (node : String) (code : Code) (raw : Int) :
    (d.handleAbs sub node code raw).1.velocity = d.velocity := by
  unfold Dev.handleAbs
  split
  · rfl
  · split
    · exact releaseAxis_vel d code
    · rename_i a _
      simp only
      have hpre : (if a.kind = .key then (d, ([] : List Out)) else d.releaseAxis code).1.velocity = d.velocity := by
        split_ifs
        · rfl
        · exact releaseAxis_vel d code
      generalize (if a.kind = .key then (d, ([] : List Out)) else d.releaseAxis code) = dp at hpre
      obtain ⟨d1, pre⟩ := dp
      simp only at hpre ⊢
      split
      · exact hpre
      · split_ifs
        all_goals first
          | exact hpre
          | (simp only
             split
             · rw [absCC_vel]; exact hpre
             · exact hpre
             · rw [absKey_vel]; exact hpre
             · rw [absAction_vel]; exact hpre)

theorem step_vel (d : Dev) (e : Ev) : (d.step e).1.velocity = d.velocity := by
  unfold Dev.step
  split
  · rfl
  · cases e with
    | syn => rfl
    | midiIn a b c =>
      simp only
      unfold Dev.midiIn
      simp only
      split_ifs <;> rfl
    | abs sub node code raw => exact handleAbs_vel d sub node code raw
    | key sub code val =>
      simp only
      split
      · rfl
      · exact handleKey_vel d sub code val

theorem run_vel (evs : List Ev) : ∀ d : Dev, (d.run evs).1.velocity = d.velocity := by
  induction evs with
  | nil => intro d; rfl
  | cons e es ih => intro d; rw [run_cons]; simp only; rw [ih, step_vel]

/-- **every reachable state of every history** (keys, axes, SYN, MIDI input in any order) that has not crashed satisfies
    the invariant of key handling -/
theorem reachable_kinv (cfg : Config) (hacc : Accepted cfg = true) (evs : List Ev)
    (hdead : ((Dev.init cfg).run evs).1.dead = false) : KInv cfg ((Dev.init cfg).run evs).1 := by
  obtain ⟨h1, h2, _, _, h5, h6, _⟩ := C05_run_ok cfg hacc evs
  have hv := run_vel evs (Dev.init cfg)
  exact ⟨h1, hdead, rfl, h2, h5, hv, trivial, trivial, h6⟩

end Hidi.KInvReach
