/-
  HidiProofs.EngineSim — on every history without axis events the device model satisfies all
  monitors of `Hidi.Spec` / `Hidi.SpecAxis` (up to the int8 wrap-around of octave / semitone, which
  shows as a C04 "state-evolution" / "initial-state" failure).

  Structure of the proof:
  * `EngineSimBase`  : association lists, `holders`, the receiver, bit-level facts;
  * `EngineSimStep`  : the monitor of one step clause by clause (`checkStep_fails`), the invariants;
  * `EngineSimModel` : what `NoteOn`, `NoteOff`, `checkDoubleActions`, the action handlers and
                       `handleKEYEvent` do to a reachable model state;
  * `EngineSimKey`   : one step of the model against one step of the monitor (`step_sim`);
  * this file        : induction over the history, the axis monitor on key-only histories, the
                       disconnect clean-up, and the main theorems.
-/
import HidiProofs.EngineSimKey
namespace Hidi.EngineSim
open Hidi Hidi.Spec

def keyOnly : Ev → Bool
  | .abs _ _ _ _ => false
  | _ => true

theorem keyOnly_ne {e : Ev} (h : keyOnly e = true) : ∀ s n c v, e ≠ Ev.abs s n c v := by
  intro s n c v he; subst he; simp [keyOnly] at h

/-! ### the initial state -/

theorem accepted_ch {cfg : Config} (h : Accepted cfg = true) : u8 (cfg.defCh - 1) < 16 := by
  simp only [Accepted, Bool.and_eq_true, decide_eq_true_eq, Bool.decide_and] at h
  unfold u8; omega

theorem accepted_defMap {cfg : Config} (h : Accepted cfg = true) : cfg.defMap < cfg.maps.length := by
  simp only [Accepted, Bool.and_eq_true, decide_eq_true_eq, Bool.decide_and] at h
  omega

theorem inv_init {cfg : Config} (hacc : Accepted cfg = true) :
    Inv cfg (Dev.init cfg) (Book.init (StObs.ofDev (Dev.init cfg))) := by
  refine ⟨⟨rfl, rfl, rfl, accepted_ch hacc, accepted_defMap hacc, rfl, trivial, trivial, ?_⟩,
    rfl, rfl, rfl, ?_⟩
  · intro p hp; simp [Dev.init] at hp
  · intro _
    refine ⟨rfl, rfl, ⟨?_, ?_, ?_⟩, ?_⟩
    · simp [Dev.init, akeys]
    · intro ch n; simp [Dev.init, Dev.count, alookup, holders]
    · intro p hp; simp [Book.init] at hp
    · intro k hk; simp [Dev.init, akeys] at hk

/-! ### induction over the history -/

/-- kept for the shape of the statements: since octave / semitone are `int` there is nothing to exclude -/
def nowrapObs (_s : StObs) : Prop := True

theorem steps_sim {cfg : Config} (hacc : Accepted cfg = true) :
    ∀ (evs : List Ev) (d : Dev) (b : Book) (i : Nat) (infos : List (Option Nat × Bool)),
      Inv cfg d b → evs.all keyOnly = true → (∀ x ∈ infos, x = (some 0, false)) →
      Inv cfg (modelSteps d evs).2 (checkSteps cfg i b (modelSteps d evs).1 infos).2 ∧
      (∀ f ∈ (checkSteps cfg i b (modelSteps d evs).1 infos).1, f.prop = "C04" ∧ f.clause = "state-evolution") ∧
      ((∀ st ∈ (modelSteps d evs).1, nowrapObs st.st) → (checkSteps cfg i b (modelSteps d evs).1 infos).1 = []) := by
  intro evs
  induction evs with
  | nil => intro d b i infos hinv _ _; exact ⟨hinv, by simp [modelSteps, checkSteps], fun _ => rfl⟩
  | cons e es ih =>
    intro d b i infos hinv hk hinfos
    simp only [List.all_cons, Bool.and_eq_true] at hk
    have hhead : infos.headD (some 0, false) = (some 0, false) := by
      cases infos with
      | nil => rfl
      | cons x r => exact hinfos x (List.mem_cons_self)
    have htail : ∀ x ∈ infos.tail, x = (some 0, false) := fun x hx => hinfos x (List.mem_of_mem_tail hx)
    obtain ⟨s1, s2, s3⟩ := step_sim hacc hinv i e (keyOnly_ne hk.1)
    obtain ⟨r1, r2, r3⟩ := ih (d.step e).1 _ (i + 1) infos.tail s1 hk.2 htail
    simp only [modelSteps, checkSteps, hhead]
    refine ⟨r1, ?_, ?_⟩
    · intro f hf
      rcases List.mem_append.mp hf with h | h
      · rw [s2 f h]; exact ⟨rfl, rfl⟩
      · exact r2 f h
    · intro hw
      rw [s3 (hw _ (List.mem_cons_self)), r3 (fun st hst => hw st (List.mem_cons_of_mem _ hst))]
      rfl

theorem modelSteps_evs (d : Dev) (evs : List Ev) : (modelSteps d evs).1.map (·.ev) = evs := by
  induction evs generalizing d with
  | nil => rfl
  | cons e es ih => simp only [modelSteps, List.map_cons, ih]

/-! ### the axis monitor on key-only histories -/

theorem abook_key_frame (cfg : Config) (b : ABook) (code : Code) (val : Int) :
    (b.key cfg code val).aknown = b.aknown ∧ (b.key cfg code val).apinned = b.apinned ∧
    (b.key cfg code val).samples = b.samples := by
  unfold ABook.key
  simp only []
  repeat' split
  all_goals exact ⟨rfl, rfl, rfl⟩

theorem axis_steps_key {cfg : Config} :
    ∀ (steps : List Step) (i : Nat) (ab : ABook), (∀ st ∈ steps, keyOnly st.ev = true) →
      ab.aknown = true → ab.apinned = [] → ab.samples = [] →
      (checkAxisSteps cfg i ab steps).1 = [] ∧
      (∀ x ∈ (checkAxisSteps cfg i ab steps).2.1, x.held = some 0 ∧ x.actionAxis = false) ∧
      (checkAxisSteps cfg i ab steps).2.2.samples = [] := by
  intro steps
  induction steps with
  | nil => intro i ab _ _ _ hs; exact ⟨rfl, by simp [checkAxisSteps], hs⟩
  | cons st r ih =>
    intro i ab hk h1 h2 h3
    have hk1 := hk st (List.mem_cons_self)
    have hkr : ∀ s ∈ r, keyOnly s.ev = true := fun s hs => hk s (List.mem_cons_of_mem _ hs)
    unfold checkAxisSteps
    simp only []
    cases hev : st.ev with
    | abs s n c v => rw [hev] at hk1; simp [keyOnly] at hk1
    | key sub code val =>
      simp only
      obtain ⟨k1, k2, k3⟩ := abook_key_frame cfg ab code val
      obtain ⟨q1, q2, q3⟩ := ih (i + 1)
        { ab.key cfg code val with pre := st.st, dead := ab.dead || st.outs.contains .panic,
                                   ccv := st.outs.foldl recvCC ab.ccv } hkr (k1.trans h1) (k2.trans h2) (k3.trans h3)
      refine ⟨?_, ?_, q3⟩
      · rw [q1]; simp
      · intro x hx
        rcases List.mem_cons.mp hx with rfl | hx
        · simp [k1, h1, k2, h2, isActionAxisStep]
        · exact q2 x hx
    | syn =>
      simp only
      obtain ⟨q1, q2, q3⟩ := ih (i + 1)
        { ab with pre := st.st, dead := ab.dead || st.outs.contains .panic,
                  ccv := st.outs.foldl recvCC ab.ccv } hkr h1 h2 h3
      refine ⟨?_, ?_, q3⟩
      · rw [q1]; simp
      · intro x hx
        rcases List.mem_cons.mp hx with rfl | hx
        · simp [h1, h2, isActionAxisStep]
        · exact q2 x hx
    | midiIn x y z =>
      simp only
      obtain ⟨q1, q2, q3⟩ := ih (i + 1)
        { ab with pre := st.st, dead := ab.dead || st.outs.contains .panic,
                  ccv := st.outs.foldl recvCC ab.ccv } hkr h1 h2 h3
      refine ⟨?_, ?_, q3⟩
      · rw [q1]; simp
      · intro x hx
        rcases List.mem_cons.mp hx with rfl | hx
        · simp [h1, h2, isActionAxisStep]
        · exact q2 x hx

/-! ### the disconnect clean-up -/

/-- `NoteOff` for a list of keys, outputs concatenated -/
def offAll (d : Dev) : List Code → Dev × List Out
  | [] => (d, [])
  | c :: l => ((offAll (d.noteOff c).1 l).1, (d.noteOff c).2 ++ (offAll (d.noteOff c).1 l).2)

theorem foldl_offAll (l : List Code) : ∀ (d : Dev) (o0 : List Out),
    l.foldl (fun (acc : Dev × List Out) c => let (d', o) := acc.1.noteOff c; (d', acc.2 ++ o)) (d, o0) =
      ((offAll d l).1, o0 ++ (offAll d l).2) := by
  induction l with
  | nil => intro d o0; simp [offAll]
  | cons c l ih =>
    intro d o0
    simp only [List.foldl_cons, offAll]
    rw [ih]
    simp only [List.append_assoc]

theorem cleanup_eq {cfg : Config} {d : Dev} (hd : DInv cfg d) :
    d.cleanup.2 = (offAll d (akeys d.noteTr)).2 := by
  unfold Dev.cleanup Dev.cleanupWith
  rw [hd.dead, hd.ana]
  simp only [Bool.false_eq_true, if_false, foldl_offAll, akeys, List.map_nil, List.foldl_nil, List.nil_append,
    List.append_nil]

theorem offAll_sim {cfg : Config} (l : List Code) : ∀ (d : Dev) (snd : List (Nat × Nat)),
    DInv cfg d → Core d snd →
      DInv cfg (offAll d l).1 ∧ (offAll d l).2.all okOut = true ∧
      Core (offAll d l).1 (sounding snd (offAll d l).2) ∧
      (offAll d l).1.noteTr = l.foldl (fun t c => aerase c t) d.noteTr := by
  induction l with
  | nil => intro d snd hd hc; exact ⟨hd, rfl, hc, rfl⟩
  | cons c l ih =>
    intro d snd hd hc
    have hstep : DInv cfg (d.noteOff c).1 ∧ (d.noteOff c).2.all okOut = true ∧
        Core (d.noteOff c).1 (sounding snd (d.noteOff c).2) ∧ (d.noteOff c).1.noteTr = aerase c d.noteTr := by
      rw [noteOff_eq hd]
      cases hk : alookup c d.noteTr with
      | none => exact ⟨hd, rfl, hc, (aerase_of_not_mem (alookup_eq_none.mp hk)).symm⟩
      | some q =>
        obtain ⟨n, ch⟩ := q
        have hw := hd.wf _ (alookup_mem hk)
        exact ⟨hd.released c n ch, releaseOuts_ok _ _ hw.2 hw.1, hc.released hk cfg.mode hw.2, rfl⟩
    obtain ⟨s1, s2, s3, s4⟩ := hstep
    obtain ⟨r1, r2, r3, r4⟩ := ih (d.noteOff c).1 _ s1 s3
    simp only [offAll, List.foldl_cons]
    refine ⟨r1, ?_, ?_, ?_⟩
    · rw [List.all_append, s2, r2]; rfl
    · rw [sounding_append]; exact r3
    · rw [r4, s4]

theorem foldl_aerase_nil (l : List Code) : ∀ (t : List (Code × (Nat × Nat))), (∀ k ∈ akeys t, k ∈ l) →
    l.foldl (fun t c => aerase c t) t = [] := by
  induction l with
  | nil =>
    intro t h
    apply eq_nil_of_akeys_nil
    apply List.eq_nil_iff_forall_not_mem.mpr
    intro k hk; have := h k hk; simp at this
  | cons c l ih =>
    intro t h
    simp only [List.foldl_cons]
    apply ih
    intro k hk
    rw [mem_akeys_aerase] at hk
    rcases List.mem_cons.mp (h k hk.1) with e | e
    · exact absurd e hk.2
    · exact e

theorem cleanup_sim {cfg : Config} {d : Dev} {b : Book} (hinv : Inv cfg d b) :
    d.cleanup.2.all wellFormed = true ∧ (b.ok = true → sounding b.snd d.cleanup.2 = []) := by
  rw [cleanup_eq hinv.dinv]
  constructor
  · -- well-formedness does not need the bookkeeping: run the fold with the trivial receiver state
    have hgen : ∀ (l : List Code) (d : Dev), DInv cfg d → (offAll d l).2.all okOut = true := by
      intro l
      induction l with
      | nil => intro d _; rfl
      | cons c l ih =>
        intro d hd
        obtain ⟨m1, -, -, m4, -⟩ := noteOff_model hd c
        simp only [offAll]
        rw [List.all_append, m4, ih _ m1]; rfl
    exact okOut_wf (hgen _ _ hinv.dinv)
  · intro hk
    have ho := hinv.okp hk
    obtain ⟨-, -, r3, r4⟩ := offAll_sim (akeys d.noteTr) d b.snd hinv.dinv ho.core
    rw [foldl_aerase_nil _ _ (fun k hk => hk)] at r4
    apply List.eq_nil_iff_forall_not_mem.mpr
    intro p hp
    obtain ⟨k, hk'⟩ := r3.snd p hp
    rw [r4] at hk'
    simp at hk'

/-! ### the main theorems -/

theorem modelTrace_steps (cfg : Config) (evs : List Ev) (disc : Bool) :
    (modelTrace cfg evs disc).steps = (modelSteps (Dev.init cfg) evs).1 := rfl

theorem monotoneFails_nil : monotoneFails [] = [] := rfl

/-- all monitors on a key-only history: the initial-state check followed by the per-step checks -/
theorem checkAll_key (cfg : Config) (evs : List Ev) (disc : Bool)
    (hacc : Accepted cfg = true) (hk : evs.all keyOnly = true) :
    ∃ infos : List (Option Nat × Bool), (∀ x ∈ infos, x = (some 0, false)) ∧
      checkAll (modelTrace cfg evs disc) =
        (if StObs.ofDev (Dev.init cfg) ≠ initExpected cfg then [⟨"C04", 0, "initial-state"⟩] else []) ++
        (checkSteps cfg 0 (Book.init (StObs.ofDev (Dev.init cfg))) (modelSteps (Dev.init cfg) evs).1 infos).1 := by
  have hsteps : ∀ st ∈ (modelSteps (Dev.init cfg) evs).1, keyOnly st.ev = true := by
    intro st hst
    have : st.ev ∈ (modelSteps (Dev.init cfg) evs).1.map (·.ev) := List.mem_map_of_mem hst
    rw [modelSteps_evs] at this
    exact List.all_eq_true.mp hk _ this
  obtain ⟨a1, a2, a3⟩ := axis_steps_key (cfg := cfg) (modelSteps (Dev.init cfg) evs).1 0
    (ABook.init (StObs.ofDev (Dev.init cfg))) hsteps rfl rfl rfl
  refine ⟨(checkAxisSteps cfg 0 (ABook.init (StObs.ofDev (Dev.init cfg)))
    (modelSteps (Dev.init cfg) evs).1).2.1.map (fun i => (i.held, i.actionAxis)), ?_, ?_⟩
  · intro x hx
    obtain ⟨y, hy, rfl⟩ := List.mem_map.mp hx
    rw [(a2 y hy).1, (a2 y hy).2]
  · obtain ⟨s1, -, -⟩ := steps_sim hacc evs (Dev.init cfg) _ 0
      ((checkAxisSteps cfg 0 (ABook.init (StObs.ofDev (Dev.init cfg)))
        (modelSteps (Dev.init cfg) evs).1).2.1.map (fun i => (i.held, i.actionAxis)))
      (inv_init hacc) hk (by
        intro x hx
        obtain ⟨y, hy, rfl⟩ := List.mem_map.mp hx
        rw [(a2 y hy).1, (a2 y hy).2])
    obtain ⟨c1, c2⟩ := cleanup_sim s1
    unfold checkAll checkAxisTrace checkTrace
    simp only [modelTrace_steps]
    have hcfg : (modelTrace cfg evs disc).cfg = cfg := rfl
    have hinit : (modelTrace cfg evs disc).init = StObs.ofDev (Dev.init cfg) := rfl
    have hcl : (modelTrace cfg evs disc).cleanup =
        if disc = true then some (modelSteps (Dev.init cfg) evs).2.cleanup.2 else none := rfl
    rw [hcfg, hinit, hcl, a1, a3, monotoneFails_nil]
    simp only [hacc, true_and, ite_self, List.append_nil, List.nil_append]
    have hdead := s1.bdead
    cases disc with
    | false => simp
    | true =>
      simp only [if_true, hdead, c1]
      cases hok : (checkSteps cfg 0 (Book.init (StObs.ofDev (Dev.init cfg))) (modelSteps (Dev.init cfg) evs).1
          (List.map (fun i => (i.held, i.actionAxis))
            (checkAxisSteps cfg 0 (ABook.init (StObs.ofDev (Dev.init cfg)))
              (modelSteps (Dev.init cfg) evs).1).2.1)).2.ok with
      | false => simp
      | true => simp [c2 hok]

/-- MAIN THEOREM: on every key-only history of an accepted configuration the model satisfies every monitor of
    `Hidi.Spec` / `Hidi.SpecAxis` — C01, C02, C03, C04, C05, C13, C14, with or without a final disconnect.
    (Before the int8 repair of octave / semitone this held only up to C04 "state-evolution" / "initial-state"
    failures at the wrap-around; the fields are `int` now and the model adds and subtracts in ℤ.) -/
theorem key_histories_all (cfg : Config) (evs : List Ev) (disc : Bool)
    (hacc : Accepted cfg = true) (hk : evs.all keyOnly = true) :
    checkAll (modelTrace cfg evs disc) = [] := by
  obtain ⟨infos, hinfos, heq⟩ := checkAll_key cfg evs disc hacc hk
  obtain ⟨-, -, s3⟩ := steps_sim hacc evs (Dev.init cfg) _ 0 infos (inv_init hacc) hk hinfos
  rw [heq, s3 (fun _ _ => trivial), List.append_nil, if_neg]
  intro h
  apply h
  simp only [StObs.ofDev, Dev.init, initExpected, List.length_nil]

theorem key_histories (cfg : Config) (evs : List Ev) (disc : Bool)
    (hacc : Accepted cfg = true) (hk : evs.all keyOnly = true) :
    ∀ f ∈ checkAll (modelTrace cfg evs disc),
      f.prop = "C04" ∧ (f.clause = "state-evolution" ∨ f.clause = "initial-state") := by
  rw [key_histories_all cfg evs disc hacc hk]
  intro f hf; cases hf

/-- kept for the shape of older statements: nothing needs to be excluded any more -/
def NoWrap (_cfg : Config) (_evs : List Ev) : Prop := True

theorem key_histories_nowrap (cfg : Config) (evs : List Ev) (disc : Bool)
    (hacc : Accepted cfg = true) (hk : evs.all keyOnly = true) (_hw : NoWrap cfg evs) :
    checkAll (modelTrace cfg evs disc) = [] := key_histories_all cfg evs disc hacc hk

end Hidi.EngineSim
