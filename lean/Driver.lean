/-
  hidi-driver — executes the line protocol with the model's definitions (core Lean only).
  One output line per operation line that produces output; `case <id>` lines are echoed.
-/
import Hidi

open Hidi

structure St where
  dev : DevSt := {}
  parse : ParseSt := {}
  load : LoadSt := {}
  norm : NormSt := {}
  up : UpSt := {}
  watch : WatchSt := {}
  fan : FanSt := {}
  led : LedSt := {}

/-- note-name engine (C11) -/
def noteLine (toks : List String) : Option String :=
  match toks with
  | ["s2n", h] =>
    match stringToNote ((unhexBytes h).map Char.ofNat) with
    | .ok n => some (toString n)
    | _ => some "err"
  | ["n2s", n] =>
    let k := tokNat n % 256
    let p := noteToPitch k
    some s!"{if p.isEmpty then "-" else String.join (p.map (fun c => hex2 c.toNat))} {noteToOctave k}"
  | _ => none

def St.line (s : St) (line : String) : St × Option String :=
  let toks := (line.splitOn " ").filter (· ≠ "")
  match toks with
  | [] => (s, none)
  | "case" :: _ => ({ s with led := {} }, some line)
  | t :: _ =>
    if t.startsWith "#" then (s, none)
    else if t = "s2n" ∨ t = "n2s" then (s, noteLine toks)
    else if t.startsWith "tpl." ∨ t.startsWith "fs." ∨ t = "upkeep" ∨ t = "crashstates" then
      let (p, o) := s.up.line toks
      ({ s with up := p }, o)
    else if t.startsWith "led." ∨ s.led.active then
      let (p, o) := s.led.line toks
      ({ s with led := p }, o)
    else if t.startsWith "fan." then
      let (p, o) := s.fan.line toks
      ({ s with fan := p }, o)
    else if t.startsWith "w." then
      let (p, o) := s.watch.line toks
      ({ s with watch := p }, o)
    else if t = "h" ∨ t = "h.reset" ∨ t = "norm" then
      let (p, o) := s.norm.line toks
      ({ s with norm := p }, o)
    else if t.startsWith "tree." ∨ t = "find" then
      let (p, o) := s.load.line toks
      ({ s with load := p }, o)
    else if t.startsWith "t." ∨ t = "hidi" then
      let (p, o) := s.parse.line toks
      ({ s with parse := p }, o)
    else
      let (d, o) := s.dev.line toks
      ({ s with dev := d }, o)

partial def loop (hin hout : IO.FS.Stream) (s : St) : IO Unit := do
  let line ← hin.getLine
  if line.isEmpty then return ()
  let line := String.ofList (line.toList.filter (fun c => c ≠ (Char.ofNat 10) && c ≠ (Char.ofNat 13)))
  let (s', o) := s.line line
  match o with
  | some out => hout.putStrLn out
  | none => pure ()
  loop hin hout s'

def main : IO Unit := do
  let hin ← IO.getStdin
  let hout ← IO.getStdout
  loop hin hout {}
  hout.flush
