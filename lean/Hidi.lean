import Hidi.Basic
import Hidi.Float
import Hidi.Engine
import Hidi.Notes
import Hidi.Spec
import Hidi.SpecAxis
import Hidi.Proto
import Hidi.DevEngine
