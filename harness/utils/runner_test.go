//go:build verif

package utils

// Line-protocol runner for DynamicFanOut (C15).  Consumers are real goroutines reading from the channels returned
// by SpawnOutput; "stopped" consumers simply stop reading.  Every SpawnOutput / DespawnOutput call runs in its own
// goroutine with a watchdog, so that a call that blocks is reported instead of hanging the runner.

import (
	"bufio"
	"fmt"
	"math/rand"
	"os"
	"sort"
	"strconv"
	"strings"
	"sync"
	"testing"
	"time"
)

type consumer struct {
	label  string
	id     int64
	ch     <-chan int
	mu     sync.Mutex
	got    []int
	closed bool
	stop   chan struct{}
	ready  bool
}

func (c *consumer) loop() {
	for {
		select {
		case <-c.stop:
			return
		case v, ok := <-c.ch:
			if !ok {
				c.mu.Lock()
				c.closed = true
				c.mu.Unlock()
				return
			}
			c.mu.Lock()
			c.got = append(c.got, v)
			c.mu.Unlock()
		}
	}
}

type pending struct {
	done chan string
	res  string
}

type fanCase struct {
	in      chan int
	f       *DynamicFanOut[int]
	cons    map[string]*consumer
	order   []string
	next    int
	feedq   chan int
	calls   map[string]*pending // "spawn:label" / "despawn:label"
	settle  time.Duration
}

func (c *fanCase) wait(p *pending, d time.Duration) string {
	if p.res != "" {
		return p.res
	}
	select {
	case r := <-p.done:
		p.res = r
		return r
	case <-time.After(d):
		return "blocked"
	}
}

func (c *fanCase) line(toks []string) (string, bool) {
	ms := func(i int) time.Duration {
		v, _ := strconv.Atoi(toks[i])
		return time.Duration(v) * time.Millisecond
	}
	switch toks[0] {
	case "fan.new":
		capn, _ := strconv.Atoi(toks[1])
		*c = fanCase{in: make(chan int, capn), cons: map[string]*consumer{}, calls: map[string]*pending{}, feedq: make(chan int, 100000), settle: 25 * time.Millisecond}
		c.f = NewDynamicFanOut[int](c.in)
		go func(in chan int, q chan int) {
			for v := range q {
				in <- v
			}
		}(c.in, c.feedq)
		return "", false
	case "fan.spawn":
		label := toks[1]
		co := &consumer{label: label, stop: make(chan struct{})}
		c.cons[label] = co
		c.order = append(c.order, label)
		p := &pending{done: make(chan string, 1)}
		c.calls["spawn:"+label] = p
		go func() {
			id, ch, err := c.f.SpawnOutput()
			if err != nil {
				p.done <- "error"
				return
			}
			co.mu.Lock()
			co.id, co.ch, co.ready = id, ch, true
			co.mu.Unlock()
			go co.loop()
			p.done <- fmt.Sprintf("id %d", id)
		}()
		r := c.wait(p, ms(2))
		time.Sleep(c.settle)
		return r, true
	case "fan.feed":
		n, _ := strconv.Atoi(toks[1])
		for i := 0; i < n; i++ {
			c.next++
			c.feedq <- c.next
		}
		time.Sleep(c.settle)
		return "", false
	case "fan.stop":
		co := c.cons[toks[1]]
		close(co.stop)
		time.Sleep(c.settle)
		return "", false
	case "fan.resume":
		co := c.cons[toks[1]]
		co.stop = make(chan struct{})
		go co.loop()
		time.Sleep(c.settle)
		return "", false
	case "fan.despawn":
		label := toks[1]
		co := c.cons[label]
		p := &pending{done: make(chan string, 1)}
		c.calls["despawn:"+label] = p
		go func() {
			co.mu.Lock()
			id := co.id
			co.mu.Unlock()
			if err := c.f.DespawnOutput(id); err != nil {
				p.done <- "error"
				return
			}
			p.done <- "returned"
		}()
		r := c.wait(p, ms(2))
		time.Sleep(c.settle)
		return r, true
	case "fan.check":
		p := c.calls[toks[1]]
		if p == nil {
			return "nocall", true
		}
		return c.wait(p, ms(2)), true
	case "fan.sleep":
		time.Sleep(ms(1))
		return "", false
	case "fan.report":
		time.Sleep(c.settle)
		var parts []string
		for _, l := range c.order {
			co := c.cons[l]
			co.mu.Lock()
			var s []string
			for _, v := range co.got {
				s = append(s, strconv.Itoa(v))
			}
			parts = append(parts, fmt.Sprintf("%s=%s", l, strings.Join(s, ",")))
			co.mu.Unlock()
		}
		return strings.Join(parts, " "), true
	case "fan.stress":
		// fan.stress <seed> <consumers> <messages>: free-running goroutines; reports what every consumer saw together
		// with the feed counter observed just before SpawnOutput was called / just after DespawnOutput returned
		seed, _ := strconv.ParseInt(toks[1], 10, 64)
		nc, _ := strconv.Atoi(toks[2])
		nm, _ := strconv.Atoi(toks[3])
		return stress(seed, nc, nm), true
	}
	return "bad-op", true
}

func stress(seed int64, nc, nm int) string {
	rng := rand.New(rand.NewSource(seed))
	in := make(chan int, rng.Intn(4)*4)
	f := NewDynamicFanOut[int](in)
	var fed int64
	var fedMu sync.Mutex
	type rec struct {
		lo, hi int64
		got    []int
		despawnOK bool
		spawnBlocked bool
	}
	recs := make([]*rec, nc)
	var wg sync.WaitGroup
	for i := 0; i < nc; i++ {
		r := &rec{}
		recs[i] = r
		startAfter := time.Duration(rng.Intn(20)) * time.Millisecond
		life := time.Duration(5+rng.Intn(40)) * time.Millisecond
		slow := time.Duration(rng.Intn(3)) * time.Duration(rng.Intn(300)) * time.Microsecond
		quits := rng.Intn(4) == 0 // stops reading some time before it is removed
		wg.Add(1)
		go func() {
			defer wg.Done()
			time.Sleep(startAfter)
			fedMu.Lock()
			r.lo = fed
			fedMu.Unlock()
			type spawned struct {
				id  int64
				ch  <-chan int
				err error
			}
			sp := make(chan spawned, 1)
			go func() {
				id, ch, err := f.SpawnOutput()
				sp <- spawned{id, ch, err}
			}()
			var id int64
			var ch <-chan int
			select {
			case x := <-sp:
				if x.err != nil {
					return
				}
				id, ch = x.id, x.ch
			case <-time.After(2 * time.Second):
				r.spawnBlocked = true
				return
			}
			deadline := time.Now().Add(life)
			for time.Now().Before(deadline) {
				select {
				case v, ok := <-ch:
					if !ok {
						return
					}
					r.got = append(r.got, v)
					if slow > 0 {
						time.Sleep(slow)
					}
				case <-time.After(time.Millisecond):
				}
			}
			if quits {
				time.Sleep(5 * time.Millisecond)
			}
			done := make(chan struct{})
			go func() {
				f.DespawnOutput(id)
				close(done)
			}()
			select {
			case <-done:
				r.despawnOK = true
			case <-time.After(2 * time.Second):
			}
			fedMu.Lock()
			r.hi = fed
			fedMu.Unlock()
		}()
	}
	feedDone := make(chan struct{})
	go func() {
		defer close(feedDone)
		for i := 1; i <= nm; i++ {
			fedMu.Lock()
			fed = int64(i)
			fedMu.Unlock()
			select {
			case in <- i:
			case <-time.After(3 * time.Second):
				return
			}
			if i%7 == 0 {
				time.Sleep(time.Duration(rng.Intn(500)) * time.Microsecond)
			}
		}
	}()
	wg.Wait()
	select {
	case <-feedDone:
	case <-time.After(4 * time.Second):
	}
	var parts []string
	for i, r := range recs {
		var s []string
		for _, v := range r.got {
			s = append(s, strconv.Itoa(v))
		}
		st := fmt.Sprint(r.despawnOK)
		if r.spawnBlocked {
			st = "spawn-blocked"
		}
		parts = append(parts, fmt.Sprintf("c%d:%d:%d:%s:%s", i, r.lo, r.hi, st, strings.Join(s, ",")))
	}
	sort.Strings(parts)
	return strings.Join(parts, " ")
}

func TestVerifRunner(t *testing.T) {
	outPath := os.Getenv("VERIF_OUT")
	if outPath == "" {
		t.Skip("VERIF_OUT not set")
	}
	f, err := os.Create(outPath)
	if err != nil {
		t.Fatal(err)
	}
	defer f.Close()
	w := bufio.NewWriter(f)
	defer w.Flush()
	in, err := os.Open(os.Getenv("VERIF_IN"))
	if err != nil {
		t.Fatal(err)
	}
	defer in.Close()
	sc := bufio.NewScanner(in)
	sc.Buffer(make([]byte, 1<<20), 1<<24)
	c := &fanCase{}
	for sc.Scan() {
		line := sc.Text()
		toks := strings.Fields(line)
		if len(toks) == 0 || strings.HasPrefix(toks[0], "#") {
			continue
		}
		if toks[0] == "case" {
			fmt.Fprintln(w, line)
			w.Flush()
			continue
		}
		out, ok := c.line(toks)
		if ok {
			fmt.Fprintln(w, out)
			w.Flush()
		}
	}
}
