// Stub of internal/pkg/midi/driver/alsa for building cmd/hidi in the verification sandbox, where
// the cgo rtmidi/ALSA driver cannot compile (no asoundlib.h). Overlaid with `go test -overlay` by
// /verif only; nothing under test lives in this package.
package alsa

import (
	"fmt"

	"github.com/gethiox/HIDI/internal/pkg/midi/driver"
)

func CreatePort(name string) (driver.Port, error) {
	return driver.Port{}, fmt.Errorf("alsa driver not available in the verification build")
}

func GetPorts() []driver.Port { return nil }

func PickMidiPort(idx int) (driver.Port, error) {
	return driver.Port{}, fmt.Errorf("alsa driver not available in the verification build")
}
