//go:build verif

package input

// Line-protocol runner for input.Normalize / HandlerType (C20).

import (
	"bufio"
	"encoding/hex"
	"fmt"
	"os"
	"sort"
	"strconv"
	"strings"
	"testing"

	"github.com/gethiox/HIDI/internal/pkg/logger"
	"github.com/holoplot/go-evdev"
)

func init() {
	go func() {
		for range logger.Messages {
		}
	}()
}

func vunhex(s string) string {
	if s == "-" {
		return ""
	}
	b, err := hex.DecodeString(s)
	if err != nil {
		panic("bad hex " + s)
	}
	return string(b)
}

func venhex(s string) string {
	if s == "" {
		return "-"
	}
	return hex.EncodeToString([]byte(s))
}

func TestVerifRunner(t *testing.T) {
	outPath := os.Getenv("VERIF_OUT")
	if outPath == "" {
		t.Skip("VERIF_OUT not set")
	}
	f, err := os.Create(outPath)
	if err != nil {
		t.Fatal(err)
	}
	defer f.Close()
	w := bufio.NewWriterSize(f, 1<<20)
	defer w.Flush()
	in := os.Stdin
	if p := os.Getenv("VERIF_IN"); p != "" {
		in, err = os.Open(p)
		if err != nil {
			t.Fatal(err)
		}
		defer in.Close()
	}
	sc := bufio.NewScanner(in)
	sc.Buffer(make([]byte, 1<<20), 1<<24)
	var infos []DeviceInfo
	for sc.Scan() {
		line := sc.Text()
		toks := strings.Fields(line)
		if len(toks) == 0 || strings.HasPrefix(toks[0], "#") {
			continue
		}
		switch toks[0] {
		case "case":
			fmt.Fprintln(w, line)
		case "h.reset":
			infos = nil
		case "h":
			var n [4]int
			for i := 0; i < 4; i++ {
				n[i], _ = strconv.Atoi(toks[2+i])
			}
			var caps []evdev.EvType
			if toks[7] != "-" {
				for _, c := range strings.Split(toks[7], ",") {
					v, _ := strconv.Atoi(c)
					caps = append(caps, evdev.EvType(v))
				}
			}
			uniq := ""
			if len(toks) > 8 {
				uniq = vunhex(toks[8])
			}
			infos = append(infos, DeviceInfo{
				ID:   InputID{Bus: uint16(n[0]), Vendor: uint16(n[1]), Product: uint16(n[2]), Version: uint16(n[3])},
				Name: vunhex(toks[6]), Phys: vunhex(toks[1]), CapableTypes: caps, Uniq: uniq,
				// the kernel numbers the handlers in the order it creates them and re-uses the numbers of unplugged ones:
				// the same node name carries quite different handlers from one discovery to the next
				eventName: fmt.Sprintf("event%d", len(infos)),
			})
			if len(toks) > 9 {
				infos[len(infos)-1].eventName = toks[9]
			}
		case "norm":
			res := ""
			func() {
				defer func() {
					if e := recover(); e != nil {
						res = "panic"
					}
				}()
				devs := Normalize(infos)
				var items []string
				for _, d := range devs {
					var mem []string
					for _, h := range d.Handlers {
						mem = append(mem, venhex(h.DeviceInfo.Name))
					}
					items = append(items, fmt.Sprintf("phys=%s;type=%d;id=%d:%d:%d:%d;members=%s", venhex(d.Phys), int(d.DeviceType),
						d.ID.Bus, d.ID.Vendor, d.ID.Product, d.ID.Version, strings.Join(mem, ",")))
				}
				sort.Strings(items)
				var hts []string
				for _, di := range infos {
					ht := di.HandlerType()
					name := map[HandlerType]string{DI_TYPE_UNKNOWN: "DI_TYPE_UNKNOWN", DI_TYPE_STD_KBD: "DI_TYPE_STD_KBD",
						DI_TYPE_NKRO_KBD: "DI_TYPE_NKRO_KBD", DI_TYPE_MULTIMEDIA: "DI_TYPE_MULTIMEDIA", DI_TYPE_SYSTEM: "DI_TYPE_SYSTEM",
						DI_TYPE_MOUSE: "DI_TYPE_MOUSE", DI_TYPE_JOYSTICK: "DI_TYPE_JOYSTICK"}[ht]
					hts = append(hts, name)
				}
				res = strings.Join(items, " ") + " | " + strings.Join(hts, " ")
			}()
			fmt.Fprintln(w, res)
		default:
			fmt.Fprintln(w, "bad-op")
		}
	}
}
