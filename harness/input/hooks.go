//go:build verif

package input

// VerifDeviceInfo builds a DeviceInfo whose Event() returns the given node name.
// Injected with `go test -overlay` by /verif; not part of the repository.
func VerifDeviceInfo(name, event, phys string) DeviceInfo {
	return DeviceInfo{Name: name, Phys: phys, eventName: event}
}
