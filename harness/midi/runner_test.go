//go:build verif

package midi

// Runner for ProcessMidiEvents (C15): a fake port, several concurrent emitters writing sequence-numbered messages of
// 1–3 bytes (plus an occasional longer one) into midiEventsOut, a live input stream on the fake port's receive channel.
// Reports what reached the port and what was relayed from the input, for the orchestrator's order / exactly-once check.

import (
	"bufio"
	"context"
	"encoding/hex"
	"fmt"
	"math/rand"
	"os"
	"strconv"
	"strings"
	"sync"
	"testing"
	"time"

	"github.com/gethiox/HIDI/internal/pkg/logger"
	"github.com/gethiox/HIDI/internal/pkg/midi/driver"
	"github.com/gethiox/HIDI/internal/pkg/utils"
)

func init() {
	go func() {
		for range logger.Messages {
		}
	}()
}

type fakeOut struct{ ch chan []byte }

func (f *fakeOut) Name() string               { return "fake-out" }
func (f *fakeOut) Open() error                { return nil }
func (f *fakeOut) Close() error               { return nil }
func (f *fakeOut) SendChannel() chan<- []byte { return f.ch }

type fakeIn struct{ ch chan []byte }

func (f *fakeIn) Name() string                  { return "fake-in" }
func (f *fakeIn) Open() error                   { return nil }
func (f *fakeIn) Close() error                  { return nil }
func (f *fakeIn) ReceiveChannel() <-chan []byte { return f.ch }

// a message without bytes is still a message that was delivered
func hexOrEmpty(b []byte) string {
	if len(b) == 0 {
		return "EMPTY"
	}
	return hex.EncodeToString(b)
}

// relay <seed> <emitters> <perEmitter> <inputMessages>
func relay(seed int64, ne, per, nin int, quiet time.Duration) string {
	rng := rand.New(rand.NewSource(seed))
	out := &fakeOut{ch: make(chan []byte, rng.Intn(3)*4)}
	in := &fakeIn{ch: make(chan []byte, rng.Intn(3)*4)}
	port := driver.Port{Input: in, Output: out}
	evOut := make(chan Event, 8)
	evIn := make(chan Event, 8)
	ctx, cancel := context.WithCancel(context.Background())
	defer cancel()
	var score Score
	ProcessMidiEvents(ctx, port, evOut, evIn, &score)
	// what an emitter sends.  The low nibble of the status byte (the MIDI channel) carries the emitter.  Half of the
	// traffic is sequence-numbered note-ons (every 9th a 6-byte message); the other half is what devices really send:
	// note on / off, controllers, pitch bend, pressure, program changes over a handful of values — the same message again
	// and again (an axis at rest, panic on every channel, a key hammered) is ordinary traffic and must arrive as often as
	// it was sent
	common := []byte{0, 64, 127, 1, 120, 123, 60}
	mkseq := func(e int, r *rand.Rand) [][]byte {
		var seq [][]byte
		realistic := r.Intn(2) == 0
		for i := 0; i < per; i++ {
			var b []byte
			switch {
			case realistic && len(seq) > 0 && r.Intn(3) == 0:
				b = append([]byte(nil), seq[len(seq)-1]...)
			case realistic:
				st := []byte{0xb0, 0xb0, 0xe0, 0x90, 0x80, 0xa0, 0xc0, 0xd0}[r.Intn(8)]
				b = []byte{st | byte(e&0x0f), common[r.Intn(len(common))]}
				if st != 0xc0 && st != 0xd0 {
					b = append(b, common[r.Intn(len(common))])
				}
			default:
				b = []byte{byte(0x90 | (e & 0x0f)), byte(i >> 7 & 0x7f), byte(i & 0x7f)}
				if i%9 == 4 {
					b = append(b, 0xf0, byte(e), 0xf7)
				}
			}
			seq = append(seq, b)
		}
		return seq
	}
	var sent [][]string
	var wg sync.WaitGroup
	for e := 0; e < ne; e++ {
		seq := mkseq(e, rand.New(rand.NewSource(seed*37+int64(e))))
		sent = append(sent, nil)
		for _, b := range seq {
			sent[e] = append(sent[e], hex.EncodeToString(b))
		}
		wg.Add(1)
		go func(e int, r *rand.Rand) {
			defer wg.Done()
			for _, b := range seq {
				evOut <- Event(append([]byte(nil), b...))
				if r.Intn(5) == 0 {
					time.Sleep(time.Duration(r.Intn(200)) * time.Microsecond)
				}
			}
		}(e, rand.New(rand.NewSource(seed*31+int64(e))))
	}
	var portGot []string
	pdone := make(chan struct{})
	go func() {
		defer close(pdone)
		for len(portGot) < ne*per {
			select {
			case b := <-out.ch:
				portGot = append(portGot, hexOrEmpty(b))
			case <-time.After(2 * time.Second):
				return
			}
		}
		// anything extra (a duplicate, an echo of something nobody emitted) would arrive now; with a long quiet period the
		// relay is watched across its own timers as well
		deadline := time.After(quiet)
		for {
			select {
			case b := <-out.ch:
				portGot = append(portGot, hexOrEmpty(b))
				continue
			case <-deadline:
			}
			break
		}
	}()
	var inSent, inGot []string
	idone := make(chan struct{})
	go func() {
		defer close(idone)
		for len(inGot) < nin {
			select {
			case b := <-evIn:
				inGot = append(inGot, hexOrEmpty(b))
			case <-time.After(2 * time.Second):
				return
			}
		}
		deadline := time.After(quiet)
		for {
			select {
			case b := <-evIn:
				inGot = append(inGot, hexOrEmpty(b))
				continue
			case <-deadline:
			}
			break
		}
	}()
	for i := 0; i < nin; i++ {
		b := []byte{0x80 | byte(i%16), byte(i >> 7 & 0x7f), byte(i & 0x7f)}
		if i%7 == 6 {
			// the same controller message as just before (a fresh slice): arrives twice
			b = []byte{0xb0 | byte((i-1)%16), byte((i - 1) >> 7 & 0x7f), byte((i - 1) & 0x7f)}
		} else if i%7 == 5 {
			b[0] = 0xb0 | byte(i%16)
		}
		inSent = append(inSent, hex.EncodeToString(b))
		in.ch <- b
	}
	if seed%4 == 1 {
		// the driver closes its receive channel (the port goes away) while the relay is still running: nothing more arrives,
		// so nothing more may be delivered
		close(in.ch)
	}
	wg.Wait()
	<-pdone
	<-idone
	var sp []string
	for _, s := range sent {
		sp = append(sp, strings.Join(s, ","))
	}
	return fmt.Sprintf("port=%s | sent=%s | in_sent=%s | in_got=%s | emitted=%d", strings.Join(portGot, ","), strings.Join(sp, ";"),
		strings.Join(inSent, ","), strings.Join(inGot, ","), score.MidiEventsEmitted)
}


// pipe <seed> <consumers> <messages> : the whole input path as wired in cmd/hidi (main.go / manager.go): fake port ->
// ProcessMidiEvents (queue of 8) -> utils.DynamicFanOut -> one queue per device.  The consumers do not read until the
// pipeline has backed up completely (the writer has made no progress for 60 ms) or everything has been offered; then
// they drain.  Every message is a freshly allocated slice with its own content.  Reports what each consumer got.
func pipe(seed int64, nc, nin int) string {
	rng := rand.New(rand.NewSource(seed))
	in := &fakeIn{ch: make(chan []byte, rng.Intn(3)*4)}
	out := &fakeOut{ch: make(chan []byte, 4)}
	port := driver.Port{Input: in, Output: out}
	evOut := make(chan Event, 8)
	evIn := make(chan Event, 8)
	ctx, cancel := context.WithCancel(context.Background())
	defer cancel()
	var score Score
	ProcessMidiEvents(ctx, port, evOut, evIn, &score)
	fan := utils.NewDynamicFanOut[Event](evIn)
	type cons struct {
		ch  <-chan Event
		got []string
	}
	var cs []*cons
	for i := 0; i < nc; i++ {
		_, ch, err := fan.SpawnOutput()
		if err != nil {
			return "spawn-error"
		}
		cs = append(cs, &cons{ch: ch})
	}
	var sent []string
	var mu sync.Mutex
	progress := 0
	wdone := make(chan struct{})
	go func() {
		defer close(wdone)
		for i := 0; i < nin; i++ {
			b := []byte{0x80 | byte(i%16), byte(i >> 7 & 0x7f), byte(i & 0x7f)}
			if i%7 == 3 {
				b = append(b, 0xf0, byte(i), 0xf7)
			}
			in.ch <- b
			mu.Lock()
			progress = i + 1
			mu.Unlock()
		}
	}()
	for i := 0; i < nin; i++ {
		b := []byte{0x80 | byte(i%16), byte(i >> 7 & 0x7f), byte(i & 0x7f)}
		if i%7 == 3 {
			b = append(b, 0xf0, byte(i), 0xf7)
		}
		sent = append(sent, hex.EncodeToString(b))
	}
	// wait for saturation: no progress of the writer for 60 ms (or done)
	last, still := -1, 0
	for still < 6 {
		select {
		case <-wdone:
			still = 99
		case <-time.After(10 * time.Millisecond):
		}
		mu.Lock()
		p := progress
		mu.Unlock()
		if p == last {
			still++
		} else {
			last, still = p, 0
		}
	}
	var wg sync.WaitGroup
	for _, c := range cs {
		wg.Add(1)
		go func(c *cons) {
			defer wg.Done()
			for len(c.got) < nin {
				select {
				case e := <-c.ch:
					c.got = append(c.got, hex.EncodeToString(e))
				case <-time.After(2 * time.Second):
					return
				}
			}
			select {
			case e := <-c.ch:
				c.got = append(c.got, hex.EncodeToString(e))
			case <-time.After(30 * time.Millisecond):
			}
		}(c)
	}
	wg.Wait()
	var parts []string
	for _, c := range cs {
		parts = append(parts, strings.Join(c.got, ","))
	}
	return fmt.Sprintf("sent=%s | got=%s", strings.Join(sent, ","), strings.Join(parts, ";"))
}

func TestVerifRunner(t *testing.T) {
	outPath := os.Getenv("VERIF_OUT")
	if outPath == "" {
		t.Skip("VERIF_OUT not set")
	}
	f, err := os.Create(outPath)
	if err != nil {
		t.Fatal(err)
	}
	defer f.Close()
	w := bufio.NewWriter(f)
	defer w.Flush()
	in, err := os.Open(os.Getenv("VERIF_IN"))
	if err != nil {
		t.Fatal(err)
	}
	defer in.Close()
	sc := bufio.NewScanner(in)
	for sc.Scan() {
		toks := strings.Fields(sc.Text())
		if len(toks) == 0 {
			continue
		}
		if toks[0] == "case" {
			fmt.Fprintln(w, sc.Text())
			continue
		}
		if toks[0] == "relay" {
			seed, _ := strconv.ParseInt(toks[1], 10, 64)
			ne, _ := strconv.Atoi(toks[2])
			per, _ := strconv.Atoi(toks[3])
			nin, _ := strconv.Atoi(toks[4])
			quiet := 30 * time.Millisecond
			if len(toks) > 5 {
				ms, _ := strconv.Atoi(toks[5])
				quiet = time.Duration(ms) * time.Millisecond
			}
			fmt.Fprintln(w, relay(seed, ne, per, nin, quiet))
			w.Flush()
		}
		if toks[0] == "pipe" {
			seed, _ := strconv.ParseInt(toks[1], 10, 64)
			nc, _ := strconv.Atoi(toks[2])
			nin, _ := strconv.Atoi(toks[3])
			fmt.Fprintln(w, pipe(seed, nc, nin))
			w.Flush()
		}
	}
}
