//go:build verif

package main

// Line-protocol runner for package main: LoadHIDIConfig (C09) and updateHIDIConfiguration (C18).

import (
	"bufio"
	"encoding/hex"
	"fmt"
	"os"
	"os/exec"
	"path/filepath"
	"runtime"
	"sort"
	"strings"
	"syscall"
	"testing"

	"github.com/gethiox/HIDI/internal/pkg/logger"
	"github.com/pelletier/go-toml/v2"
)

// package main calls flag.Parse() in an init function; the testing flags must be registered first
var _ = func() bool { testing.Init(); return true }()

func init() {
	go func() {
		for range logger.Messages {
		}
	}()
}

func vunhex(s string) []byte {
	if s == "-" {
		return nil
	}
	b, err := hex.DecodeString(s)
	if err != nil {
		panic("bad hex " + s)
	}
	return b
}

type hrunner struct {
	dir   string
	files map[string][]byte // pending tree: path -> content (nil = directory)
	none  bool
}

func (r *hrunner) hidiraw(data []byte) string {
	p := filepath.Join(r.dir, "hidi-test.toml")
	os.WriteFile(p, data, 0o644)
	res := ""
	func() {
		defer func() {
			if e := recover(); e != nil {
				res = "panic"
			}
		}()
		c, err := LoadHIDIConfig(p)
		if err != nil {
			res = "err"
		} else {
			res = fmt.Sprintf("ok %d %d %d", int64(c.HIDI.EVThrottling), int64(c.HIDI.DiscoveryRate), int64(c.HIDI.StabilizationPeriod))
		}
	}()
	dec := ""
	func() {
		defer func() {
			if e := recover(); e != nil {
				dec = "hidi panic 0 0 0"
			}
		}()
		var raw HIDIConfigRaw
		if err := toml.Unmarshal(data, &raw); err != nil {
			dec = "hidi err 0 0 0"
			return
		}
		dec = fmt.Sprintf("hidi ok %d %d %d", raw.HIDI.PoolRate, raw.HIDI.DiscoveryRate, raw.HIDI.StabilizationPeriod)
	}()
	return res + " ;;; " + dec
}

// materialise writes the pending tree into a fresh working directory and returns it
func (r *hrunner) materialise() string {
	wd := filepath.Join(r.dir, "wd")
	os.RemoveAll(wd)
	os.MkdirAll(wd, 0o777)
	if !r.none {
		var paths []string
		for p := range r.files {
			paths = append(paths, p)
		}
		sort.Strings(paths)
		os.MkdirAll(filepath.Join(wd, "hidi-config"), 0o777)
		for _, p := range paths {
			full := filepath.Join(wd, p)
			if r.files[p] == nil {
				os.MkdirAll(full, 0o777)
			} else {
				os.MkdirAll(filepath.Dir(full), 0o777)
				os.WriteFile(full, r.files[p], 0o666)
			}
		}
	}
	return wd
}

func (r *hrunner) crashrun(mode string, k int) string {
	wd := r.materialise()
	self, err := os.Executable()
	if err != nil {
		return "noexec"
	}
	args := []string{"-test.run", "^TestVerifUpkeepChild$", "-test.v"}
	env := append(os.Environ(), "VERIF_CHILD=1", "GOMAXPROCS=1")
	var cmd *exec.Cmd
	stout := filepath.Join(r.dir, "strace.out")
	os.Remove(stout)
	if mode == "fsize" {
		env = append(env, fmt.Sprintf("VERIF_CHILD_FSIZE=%d", k))
		cmd = exec.Command(self, args...)
	} else {
		sargs := []string{"-f", "-o", stout, "-e", "trace=mkdir,mkdirat,openat,write",
			"-e", fmt.Sprintf("inject=mkdir,mkdirat,openat,write:error=ENOSPC:when=%d", k), self}
		cmd = exec.Command("strace", append(sargs, args...)...)
	}
	cmd.Dir = wd
	cmd.Env = env
	out, _ := cmd.CombinedOutput()
	status := "noresult"
	for _, l := range strings.Split(string(out), "\n") {
		if strings.HasPrefix(l, "CHILD-RESULT ") {
			status = strings.TrimPrefix(l, "CHILD-RESULT ")
		}
	}
	if cmd.ProcessState != nil {
		if ws, ok := cmd.ProcessState.Sys().(syscall.WaitStatus); ok && ws.Signaled() {
			status = "killed"
		}
	}
	inj := "noinj"
	if b, err := os.ReadFile(stout); err == nil {
		// only injections into calls that touch the configuration tree count
		for _, l := range strings.Split(string(b), "\n") {
			if strings.Contains(l, "(INJECTED)") {
				if strings.Contains(l, "hidi-config") || strings.Contains(l, "write(") {
					inj = "inj"
				} else {
					inj = "inj-elsewhere"
				}
			}
		}
	}
	old, _ := os.Getwd()
	os.Chdir(wd)
	tree := dumpTree("hidi-config")
	os.Chdir(old)
	return status + " " + inj + " " + tree
}

// TestVerifUpkeepChild runs updateHIDIConfiguration once in the current directory (child of crashrun)
func TestVerifUpkeepChild(t *testing.T) {
	if os.Getenv("VERIF_CHILD") != "1" {
		t.Skip("not a crashrun child")
	}
	runtime.LockOSThread()
	if v := os.Getenv("VERIF_CHILD_FSIZE"); v != "" {
		var k uint64
		fmt.Sscanf(v, "%d", &k)
		if err := syscall.Setrlimit(syscall.RLIMIT_FSIZE, &syscall.Rlimit{Cur: k, Max: k}); err != nil {
			fmt.Println("CHILD-RESULT rlimit-failed")
			return
		}
	}
	res := "ok"
	func() {
		defer func() {
			if e := recover(); e != nil {
				res = "panic"
			}
		}()
		if err := updateHIDIConfiguration(); err != nil {
			res = "err"
		}
	}()
	fmt.Println("CHILD-RESULT " + res)
}

// dumpTree lists the tree under hidi-config in the working directory: sorted "path:hex" / "path/" lines
func dumpTree(root string) string {
	var items []string
	filepath.Walk(root, func(path string, info os.FileInfo, err error) error {
		if err != nil {
			return nil
		}
		if info.IsDir() {
			items = append(items, hex.EncodeToString([]byte(path))+"/")
			return nil
		}
		b, _ := os.ReadFile(path)
		h := "-"
		if len(b) > 0 {
			h = hex.EncodeToString(b)
		}
		items = append(items, hex.EncodeToString([]byte(path))+":"+h)
		return nil
	})
	sort.Strings(items)
	return strings.Join(items, " ")
}

func (r *hrunner) line(toks []string) (out string, ok bool) {
	switch toks[0] {
	case "hidiraw":
		return r.hidiraw(vunhex(toks[1])), true
	case "fs.reset":
		r.files = map[string][]byte{}
		r.none = false
		return "", false
	case "fs.none":
		r.none = true
		return "", false
	case "fs.dir":
		r.files[string(vunhex(toks[1]))] = nil
		return "", false
	case "fs.file":
		b := vunhex(toks[2])
		if b == nil {
			b = []byte{}
		}
		r.files[string(vunhex(toks[1]))] = b
		return "", false
	case "template":
		// dump of the embedded template in WalkDir order: path/ or path:hex
		var items []string
		walkTemplate(func(path string, dir bool, data []byte) {
			if dir {
				items = append(items, hex.EncodeToString([]byte(path))+"/")
			} else {
				h := "-"
				if len(data) > 0 {
					h = hex.EncodeToString(data)
				}
				items = append(items, hex.EncodeToString([]byte(path))+":"+h)
			}
		})
		return strings.Join(items, " "), true
	case "upkeep":
		// materialise the tree in a fresh working directory, run the real function there
		wd := r.materialise()
		old, _ := os.Getwd()
		os.Chdir(wd)
		res := "ok"
		func() {
			defer func() {
				if e := recover(); e != nil {
					res = "panic"
				}
			}()
			n := 1
			if len(toks) > 1 {
				fmt.Sscanf(toks[1], "%d", &n)
			}
			for i := 0; i < n; i++ {
				if err := updateHIDIConfiguration(); err != nil {
					res = "err"
					break
				}
			}
		}()
		tree := dumpTree("hidi-config")
		os.Chdir(old)
		return res + " " + tree, true
	case "crashrun":
		// crashrun fsize <k>  : the real function in a child process with RLIMIT_FSIZE = k (the kernel kills the
		//                       child with SIGXFSZ in the first write that would pass k bytes; k bytes are written)
		// crashrun strace <k> : the child under strace with ENOSPC injected into its k-th mkdir/openat/write
		var k int
		fmt.Sscanf(toks[2], "%d", &k)
		return r.crashrun(toks[1], k), true
	}
	return "bad-op", true
}

func TestVerifRunner(t *testing.T) {
	outPath := os.Getenv("VERIF_OUT")
	if outPath == "" {
		t.Skip("VERIF_OUT not set")
	}
	f, err := os.Create(outPath)
	if err != nil {
		t.Fatal(err)
	}
	defer f.Close()
	w := bufio.NewWriterSize(f, 1<<20)
	defer w.Flush()
	in := os.Stdin
	if p := os.Getenv("VERIF_IN"); p != "" {
		in, err = os.Open(p)
		if err != nil {
			t.Fatal(err)
		}
		defer in.Close()
	}
	dir, err := os.MkdirTemp(os.Getenv("VERIF_TMP"), "hidi-runner-")
	if err != nil {
		t.Fatal(err)
	}
	defer os.RemoveAll(dir)
	sc := bufio.NewScanner(in)
	sc.Buffer(make([]byte, 1<<20), 1<<26)
	r := &hrunner{dir: dir, files: map[string][]byte{}}
	for sc.Scan() {
		line := sc.Text()
		toks := strings.Fields(line)
		if len(toks) == 0 || strings.HasPrefix(toks[0], "#") {
			continue
		}
		if toks[0] == "case" {
			fmt.Fprintln(w, line)
			continue
		}
		out, ok := r.line(toks)
		if ok {
			fmt.Fprintln(w, out)
		}
	}
}
