//go:build verif

package main

import "io/fs"

// walkTemplate visits the embedded template tree in fs.WalkDir order
func walkTemplate(f func(path string, dir bool, data []byte)) {
	fs.WalkDir(templateConfig, configDir, func(path string, d fs.DirEntry, err error) error {
		if err != nil {
			return nil
		}
		if d.IsDir() {
			f(path, true, nil)
			return nil
		}
		b, _ := fs.ReadFile(templateConfig, path)
		f(path, false, b)
		return nil
	})
}
