//go:build verif

package device

// Line-protocol runner for the device engine (DESIGN.md Appendix A). Injected into package
// device with `go test -overlay`; calls the real NewDevice / processEvent / ProcessEvents.

import (
	"bufio"
	"fmt"
	"math"
	"os"
	"runtime"
	"sort"
	"strconv"
	"strings"
	"sync"
	"sync/atomic"
	"syscall"
	"testing"
	"time"

	"github.com/gethiox/HIDI/internal/pkg/input"
	"github.com/gethiox/HIDI/internal/pkg/logger"
	"github.com/gethiox/HIDI/internal/pkg/midi"
	"github.com/gethiox/HIDI/internal/pkg/midi/device/config"
	"github.com/holoplot/go-evdev"
	"github.com/realbucksavage/openrgb-go"
)

func init() {
	go func() {
		for range logger.Messages {
		}
	}()
}

type vrunner struct {
	cfg      config.Config
	axes     map[string]map[evdev.EvCode]evdev.AbsInfo
	dev      *Device
	midiOut  chan midi.Event
	midiIn   chan midi.Event
	sigs     chan os.Signal
	dead     bool
	inRunner bool
	// slow sink (`cfg.end slow`): the output queue has the 8 slots of cmd/hidi/main.go, is full of other devices'
	// traffic whenever an event is processed, and its reader takes its time
	slow    bool
	slowMu  sync.Mutex
	slowBuf []midi.Event
	slowAck chan bool
	// per message; 0: 20 µs
	slowDelay time.Duration
	// stall: the reader does not take anything for this long, once, when asked (a receiver that has stopped for a moment)
	stallNs atomic.Int64
	// `cfg.end stall`: slow, and at the disconnect the reader stalls for 150 ms with the queue full
	stallAtEnd bool
	// slow mode: the signal channel has the single slot of cmd/hidi/main.go, occupied by a signal of the operating system
	// whenever an event is processed; its reader is slow as well
	slowSigs int
	sigAck   chan bool
	// messages already reported, kept as received: a message must not change after it has been sent (a sender that
	// re-uses its buffers changes what a receiver still holds)
	kept    []midi.Event
	keptStr []string
}

func (r *vrunner) slowSigReader(ch chan os.Signal, ack chan bool) {
	for sg := range ch {
		time.Sleep(20 * time.Microsecond)
		switch sg {
		case syscall.SIGUSR1:
			ack <- true
		case syscall.SIGTERM:
		default:
			r.slowMu.Lock()
			r.slowSigs++
			r.slowMu.Unlock()
		}
	}
}

var (
	sinkFiller   = midi.Event{0xfe}       // Active Sensing: stands for another device's message in the shared queue
	sinkSentinel = midi.Event{0xf7, 0x7d} // marks "everything before this has been taken"
)

func (r *vrunner) slowReader(ch chan midi.Event, ack chan bool) {
	delay := r.slowDelay
	if delay == 0 {
		delay = 20 * time.Microsecond
	}
	for ev := range ch {
		if d := r.stallNs.Swap(0); d > 0 {
			time.Sleep(time.Duration(d))
		}
		time.Sleep(delay)
		if len(ev) == 2 && ev[0] == sinkSentinel[0] && ev[1] == sinkSentinel[1] {
			ack <- true
			continue
		}
		if len(ev) == 1 && ev[0] == sinkFiller[0] {
			continue
		}
		r.slowMu.Lock()
		r.slowBuf = append(r.slowBuf, ev)
		r.slowMu.Unlock()
	}
}

// fill makes the queue full before the device gets to send
func (r *vrunner) fill() {
	if !r.slow {
		return
	}
	// filled without ever waiting (the reader may be stalled); the idle reader takes its first filler as soon as it is
	// scheduled and then sleeps, so the queue is topped up a few times: it is full at the moment the device is called
	top := func() {
		for len(r.midiOut) < cap(r.midiOut) {
			select {
			case r.midiOut <- sinkFiller:
			default:
			}
		}
		if r.sigAck != nil {
			for len(r.sigs) < cap(r.sigs) {
				select {
				case r.sigs <- syscall.SIGTERM:
				default:
				}
			}
		}
	}
	for k := 0; k < 3; k++ {
		top()
		runtime.Gosched()
	}
	top()
}

// settle waits until the slow reader has taken everything sent so far
func (r *vrunner) settle() {
	if !r.slow {
		return
	}
	r.midiOut <- sinkSentinel
	<-r.slowAck
	if r.sigAck != nil {
		r.sigs <- syscall.SIGUSR1
		<-r.sigAck
	}
}

func atoi(s string) int {
	v, err := strconv.ParseInt(s, 10, 64)
	if err != nil {
		panic("bad int token: " + s)
	}
	return int(v)
}

func subTok(s string) string {
	if s == "-" {
		return ""
	}
	return s
}

func (r *vrunner) mapping(idx int) *config.KeyMapping {
	return &r.cfg.KeyMappings[idx]
}

func (r *vrunner) drain() string {
	var parts []string
	if r.slow {
		r.settle()
		r.slowMu.Lock()
		for i, ev := range r.kept {
			s := ""
			for _, b := range ev {
				s += fmt.Sprintf("%02x", b)
			}
			if s != r.keptStr[i] {
				parts = append(parts, "CHANGED-AFTER-SENT:"+r.keptStr[i]+">"+s)
				r.keptStr[i] = s
			}
		}
		for _, ev := range r.slowBuf {
			s := ""
			for _, b := range ev {
				s += fmt.Sprintf("%02x", b)
			}
			parts = append(parts, s)
			r.kept, r.keptStr = append(r.kept, ev), append(r.keptStr, s)
		}
		if len(r.kept) > 64 {
			r.kept, r.keptStr = r.kept[len(r.kept)-64:], r.keptStr[len(r.keptStr)-64:]
		}
		r.slowBuf = nil
		for ; r.slowSigs > 0; r.slowSigs-- {
			parts = append(parts, "SIG")
		}
		r.slowMu.Unlock()
		if r.sigAck != nil {
			return strings.Join(parts, " ")
		}
	}
	for {
		select {
		case ev := <-r.midiOut:
			s := ""
			for _, b := range ev {
				s += fmt.Sprintf("%02x", b)
			}
			parts = append(parts, s)
			continue
		default:
		}
		break
	}
	for {
		select {
		case <-r.sigs:
			parts = append(parts, "SIG")
			continue
		default:
		}
		break
	}
	return strings.Join(parts, " ")
}

func (r *vrunner) state() (s string) {
	defer func() {
		if e := recover(); e != nil {
			s = "PANIC-STATE"
		}
	}()
	st := r.dev.State()
	return fmt.Sprintf("%d %d %d %d %d", st.Octave, st.Semitone, st.Channel, r.dev.mapping, st.Notes)
}

func (r *vrunner) event(ie *input.InputEvent) string {
	if r.dead {
		return " | " + r.state()
	}
	panicked := false
	func() {
		defer func() {
			if e := recover(); e != nil {
				panicked = true
			}
		}()
		if r.slow && r.stallAtEnd && ie.Event.Type == evdev.EV_KEY && ie.Event.Value == 1 &&
			r.cfg.ActionMapping[ie.Event.Code] == config.Panic {
			// the receiver stops for a moment just when the 129 messages of a panic arrive
			r.stallNs.Store(int64(70 * time.Millisecond))
			r.midiOut <- sinkFiller
		}
		r.fill()
		r.dev.processEvent(ie)
	}()
	out := r.drain()
	if panicked {
		r.dead = true
		if out != "" {
			out += " "
		}
		out += "PANIC"
	}
	return out + " | " + r.state()
}

func (r *vrunner) line(toks []string) (string, bool) {
	switch toks[0] {
	case "cfg.begin":
		r.cfg = config.Config{
			ActionMapping: map[evdev.EvCode]config.Action{},
			CollisionMode: config.CollisionMode(toks[1]),
			Defaults: config.Defaults{Octave: atoi(toks[2]), Semitone: atoi(toks[3]), Channel: atoi(toks[4]),
				Mapping: atoi(toks[5]), Velocity: atoi(toks[6])},
		}
		r.axes = map[string]map[evdev.EvCode]evdev.AbsInfo{}
		r.dead = false
		r.kept, r.keptStr = nil, nil
		r.slow, r.slowBuf, r.sigAck, r.slowSigs = false, nil, nil, 0 // a slow reader of an earlier case stays parked on its own (empty) queue
		return "", false
	case "cfg.map":
		r.cfg.KeyMappings = append(r.cfg.KeyMappings, config.KeyMapping{
			Name:            toks[2],
			Midi:            map[string]map[evdev.EvCode]config.Key{},
			Analog:          map[string]map[evdev.EvCode]config.Analog{},
			Deadzones:       map[string]map[evdev.EvCode]float64{},
			DefaultDeadzone: map[string]float64{},
		})
		return "", false
	case "cfg.key":
		m := r.mapping(atoi(toks[1]))
		sub := subTok(toks[2])
		if m.Midi[sub] == nil {
			m.Midi[sub] = map[evdev.EvCode]config.Key{}
		}
		m.Midi[sub][evdev.EvCode(atoi(toks[3]))] = config.Key{Note: byte(atoi(toks[4])), ChannelOffset: byte(atoi(toks[5]))}
		return "", false
	case "cfg.abs":
		m := r.mapping(atoi(toks[1]))
		sub := subTok(toks[2])
		if m.Analog[sub] == nil {
			m.Analog[sub] = map[evdev.EvCode]config.Analog{}
		}
		if m.Deadzones[sub] == nil {
			m.Deadzones[sub] = map[evdev.EvCode]float64{}
		}
		m.Analog[sub][evdev.EvCode(atoi(toks[3]))] = config.Analog{
			MappingType: config.MappingType(toks[4]),
			CC:          byte(atoi(toks[5])), CCNeg: byte(atoi(toks[6])),
			Note: byte(atoi(toks[7])), NoteNeg: byte(atoi(toks[8])),
			ChannelOffset: byte(atoi(toks[9])), ChannelOffsetNeg: byte(atoi(toks[10])),
			Action: config.Action(subTok(toks[11])), ActionNeg: config.Action(subTok(toks[12])),
			FlipAxis: toks[13] == "1", Bidirectional: toks[14] == "1", DeadzoneAtCenter: toks[15] == "1",
		}
		return "", false
	case "cfg.dz":
		m := r.mapping(atoi(toks[1]))
		sub := subTok(toks[2])
		if m.Deadzones[sub] == nil {
			m.Deadzones[sub] = map[evdev.EvCode]float64{}
		}
		bits, _ := strconv.ParseUint(toks[4], 10, 64)
		m.Deadzones[sub][evdev.EvCode(atoi(toks[3]))] = math.Float64frombits(bits)
		return "", false
	case "cfg.defdz":
		m := r.mapping(atoi(toks[1]))
		bits, _ := strconv.ParseUint(toks[3], 10, 64)
		m.DefaultDeadzone[subTok(toks[2])] = math.Float64frombits(bits)
		return "", false
	case "cfg.action":
		r.cfg.ActionMapping[evdev.EvCode(atoi(toks[1]))] = config.Action(subTok(toks[2]))
		return "", false
	case "cfg.colors":
		// cfg.colors <white> <black> <c> <unavailable> <active> <activeExternal>   (24-bit rrggbb as decimal)
		col := func(i int) openrgb.Color {
			v := atoi(toks[i])
			return openrgb.Color{Red: byte(v >> 16), Green: byte(v >> 8), Blue: byte(v)}
		}
		r.cfg.OpenRGB.Colors = config.Colors{White: col(1), Black: col(2), C: col(3), Unavailable: col(4), Active: col(5), ActiveExternal: col(6)}
		return "", false
	case "cfg.exit":
		r.cfg.ExitSequence = nil
		for _, t := range toks[1:] {
			r.cfg.ExitSequence = append(r.cfg.ExitSequence, evdev.EvCode(atoi(t)))
		}
		return "", false
	case "cfg.axis":
		if r.axes[toks[1]] == nil {
			r.axes[toks[1]] = map[evdev.EvCode]evdev.AbsInfo{}
		}
		r.axes[toks[1]][evdev.EvCode(atoi(toks[2]))] = evdev.AbsInfo{Minimum: int32(atoi(toks[3])), Maximum: int32(atoi(toks[4]))}
		return "", false
	case "cfg.end":
		r.midiOut = make(chan midi.Event, 1<<14)
		r.stallAtEnd = len(toks) > 1 && toks[1] == "stall"
		if len(toks) > 1 && (toks[1] == "slow" || toks[1] == "stall") {
			r.slow = true
			r.midiOut = make(chan midi.Event, 8)
			r.slowAck = make(chan bool)
			go r.slowReader(r.midiOut, r.slowAck)
		}
		r.midiIn = make(chan midi.Event)
		r.sigs = make(chan os.Signal, 1024)
		if r.slow {
			r.sigs = make(chan os.Signal, 1)
			r.sigAck = make(chan bool)
			go r.slowSigReader(r.sigs, r.sigAck)
		}
		inputDevice := input.Device{Name: "Dummy", DeviceType: input.KeyboardDevice, AbsInfos: r.axes}
		res := "ok"
		func() {
			defer func() {
				if e := recover(); e != nil {
					res = "PANIC"
					r.dead = true
				}
			}()
			d := NewDevice(inputDevice, config.DeviceConfig{ConfigFile: "verif", ConfigType: "verif", Config: r.cfg},
				r.midiOut, r.midiIn, true, 0, r.sigs)
			r.dev = &d
		}()
		if res == "ok" {
			res = "ok | " + r.state()
		}
		return res, true
	case "key":
		ie := &input.InputEvent{
			Source: input.Handler{Name: subTok(toks[1]), DeviceInfo: input.VerifDeviceInfo("Dummy", "", "")},
			Event:  evdev.InputEvent{Type: evdev.EV_KEY, Code: evdev.EvCode(atoi(toks[2])), Value: int32(atoi(toks[3]))},
		}
		return r.event(ie), true
	case "abs":
		ie := &input.InputEvent{
			Source: input.Handler{Name: subTok(toks[1]), DeviceInfo: input.VerifDeviceInfo("Dummy", toks[2], "")},
			Event:  evdev.InputEvent{Type: evdev.EV_ABS, Code: evdev.EvCode(atoi(toks[3])), Value: int32(atoi(toks[4]))},
		}
		return r.event(ie), true
	case "syn":
		ie := &input.InputEvent{
			Source: input.Handler{Name: "", DeviceInfo: input.VerifDeviceInfo("Dummy", "", "")},
			Event:  evdev.InputEvent{Type: evdev.EV_SYN},
		}
		return r.event(ie), true
	case "midiin":
		// MIDI input is only observable through the LED frames (led engine); here it is accepted.
		return " | " + r.state(), true
	case "disconnect":
		if r.dead {
			return " | " + r.state(), true
		}
		ch := make(chan *input.InputEvent)
		close(ch)
		done := make(chan bool, 1)
		panicked := false
		go func() {
			defer func() {
				if e := recover(); e != nil {
					panicked = true
				}
				done <- true
			}()
			if r.slow && r.stallAtEnd {
				// the reader takes one more message and then nothing for 150 ms; the queue is full meanwhile
				r.stallNs.Store(int64(150 * time.Millisecond))
				r.midiOut <- sinkFiller
			}
			r.fill()
			r.dev.ProcessEvents(ch)
		}()
		select {
		case <-done:
		case <-time.After(10 * time.Second):
			return "HANG", true
		}
		var parts []string
		out := r.drain()
		if out != "" {
			parts = strings.Split(out, " ")
		}
		if panicked {
			parts = append(parts, "PANIC")
		}
		sort.Strings(parts)
		return strings.Join(parts, " ") + " | " + r.state(), true
	}
	return "bad-op", true
}

func TestVerifRunner(t *testing.T) {
	outPath := os.Getenv("VERIF_OUT")
	if outPath == "" {
		t.Skip("VERIF_OUT not set")
	}
	f, err := os.Create(outPath)
	if err != nil {
		t.Fatal(err)
	}
	defer f.Close()
	w := bufio.NewWriterSize(f, 1<<20)
	defer w.Flush()
	in := os.Stdin
	if p := os.Getenv("VERIF_IN"); p != "" {
		in, err = os.Open(p)
		if err != nil {
			t.Fatal(err)
		}
		defer in.Close()
	}
	sc := bufio.NewScanner(in)
	sc.Buffer(make([]byte, 1<<20), 1<<24)
	r := &vrunner{}
	for sc.Scan() {
		line := sc.Text()
		toks := strings.Fields(line)
		if len(toks) == 0 || strings.HasPrefix(toks[0], "#") {
			continue
		}
		if toks[0] == "case" {
			fmt.Fprintln(w, line)
			continue
		}
		out, ok := r.line(toks)
		if ok {
			fmt.Fprintln(w, out)
		}
	}
}
