//go:build verif

package device

// LED-feedback and lifecycle runner (C16, C17): the real ProcessEvents with its three goroutines (event loop, LED loop,
// MIDI-input tracker) against a fake OpenRGB server on loopback.  The runner must be started inside a mount namespace
// with a tmpfs on /sys/class/hidraw (the orchestrator does that), so that the unmodified resolveHidraw finds the
// event node of the fake controller.

import (
	"bufio"
	"encoding/binary"
	"encoding/hex"
	"fmt"
	"io"
	"math/rand"
	"net"
	"os"
	"runtime"
	"sort"
	"strconv"
	"strings"
	"sync"
	"testing"
	"time"

	"github.com/gethiox/HIDI/internal/pkg/input"
	"github.com/gethiox/HIDI/internal/pkg/midi"
	"github.com/gethiox/HIDI/internal/pkg/midi/device/config"
	"github.com/holoplot/go-evdev"
	"github.com/realbucksavage/openrgb-go"
)

// ---------------------------------------------------------------- fake OpenRGB server

type fakeRGB struct {
	ln      net.Listener
	devName string
	hidraw  int
	leds    []string
	ncolors int
	mu      sync.Mutex
	last    []byte // payload of the last UpdateLEDs
	frames  int
	conns   int
	closedC int
	// slow: delay before the answer to "how many controllers" — a server that is still detecting its devices
	slow time.Duration
	// the connections accepted so far (die() closes them: the server goes away while the device is in use)
	open []net.Conn
}

// die: the OpenRGB server goes away — no new connections, the existing ones are closed
func (f *fakeRGB) die() {
	f.ln.Close()
	f.mu.Lock()
	for _, c := range f.open {
		c.Close()
	}
	f.open = nil
	f.mu.Unlock()
}

func orgbString(s string) []byte {
	b := make([]byte, 2)
	binary.LittleEndian.PutUint16(b, uint16(len(s)+1))
	return append(append(b, []byte(s)...), 0)
}

func (f *fakeRGB) deviceBlob() []byte {
	var b []byte
	u16 := func(v int) { x := make([]byte, 2); binary.LittleEndian.PutUint16(x, uint16(v)); b = append(b, x...) }
	u32 := func(v int) { x := make([]byte, 4); binary.LittleEndian.PutUint32(x, uint32(v)); b = append(b, x...) }
	u32(0) // data size (patched below)
	u32(5) // type: keyboard
	b = append(b, orgbString(f.devName)...)
	b = append(b, orgbString("fake keyboard")...)
	b = append(b, orgbString("1.0")...)
	b = append(b, orgbString("serial")...)
	b = append(b, orgbString(fmt.Sprintf("HID: /dev/hidraw%d", f.hidraw))...)
	u16(1) // one mode
	u32(0) // active mode
	b = append(b, orgbString("Direct")...)
	for i := 0; i < 9; i++ {
		u32(0)
	}
	u16(0) // mode colours
	u16(1) // one zone
	b = append(b, orgbString("Keyboard")...)
	u32(0)
	u32(0)
	u32(uint32Len(f.leds))
	u32(uint32Len(f.leds))
	u16(0) // matrix size
	u16(len(f.leds))
	for _, n := range f.leds {
		b = append(b, orgbString(n)...)
		b = append(b, 0, 0, 0, 0)
	}
	u16(f.ncolors)
	for i := 0; i < f.ncolors; i++ {
		b = append(b, 0, 0, 0, 0)
	}
	binary.LittleEndian.PutUint32(b, uint32(len(b)))
	return b
}

func uint32Len(l []string) int { return len(l) }

func (f *fakeRGB) serve(c net.Conn) {
	defer func() {
		c.Close()
		f.mu.Lock()
		f.closedC++
		f.mu.Unlock()
	}()
	hdr := make([]byte, 16)
	for {
		if _, err := io.ReadFull(c, hdr); err != nil {
			return
		}
		cmd := binary.LittleEndian.Uint32(hdr[8:])
		n := binary.LittleEndian.Uint32(hdr[12:])
		payload := make([]byte, n)
		if _, err := io.ReadFull(c, payload); err != nil {
			return
		}
		reply := func(p []byte) {
			h := []byte("ORGB")
			x := make([]byte, 12)
			binary.LittleEndian.PutUint32(x[0:], binary.LittleEndian.Uint32(hdr[4:]))
			binary.LittleEndian.PutUint32(x[4:], cmd)
			binary.LittleEndian.PutUint32(x[8:], uint32(len(p)))
			c.Write(append(h, x...))
			c.Write(p)
		}
		switch cmd {
		case 0:
			if f.slow > 0 {
				time.Sleep(f.slow)
			}
			reply([]byte{1, 0, 0, 0})
		case 1:
			reply(f.deviceBlob())
		case 1050:
			f.mu.Lock()
			f.last = payload
			f.frames++
			f.mu.Unlock()
		}
	}
}

func startFakeRGB(devName string, hidraw int, leds []string, ncolors int) (*fakeRGB, int, error) {
	ln, err := net.Listen("tcp", "127.0.0.1:0")
	if err != nil {
		return nil, 0, err
	}
	f := &fakeRGB{ln: ln, devName: devName, hidraw: hidraw, leds: leds, ncolors: ncolors}
	go func() {
		for {
			c, err := ln.Accept()
			if err != nil {
				return
			}
			f.mu.Lock()
			f.conns++
			f.open = append(f.open, c)
			f.mu.Unlock()
			go f.serve(c)
		}
	}()
	return f, ln.Addr().(*net.TCPAddr).Port, nil
}

// frame returns the colours of the last UpdateLEDs as rrggbb tokens (payload: 4-byte size, 2-byte count, 4 bytes each)
func (f *fakeRGB) frame() (string, int) {
	f.mu.Lock()
	defer f.mu.Unlock()
	if f.last == nil {
		return "noframe", f.frames
	}
	var parts []string
	for off := 6; off+3 <= len(f.last); off += 4 {
		parts = append(parts, hex.EncodeToString(f.last[off:off+3]))
	}
	return strings.Join(parts, ","), f.frames
}

// ---------------------------------------------------------------- one device under the real ProcessEvents

type ledDev struct {
	r       *vrunner
	srv     *fakeRGB
	in      chan *input.InputEvent
	done    chan struct{}
	evname  string
	hidraw  int
	devName string
	leds    []string
	ncolors int
	paniced bool
	slowSrv time.Duration
	// slowSink: per-message delay of the MIDI receiver (8-slot queue); 0: a large queue that is read at the end
	slowSink time.Duration
}

var sysMu sync.Mutex

func makeSysNode(hidraw int, event string) error {
	sysMu.Lock()
	defer sysMu.Unlock()
	return os.MkdirAll(fmt.Sprintf("/sys/class/hidraw/hidraw%d/device/input/input%d/%s", hidraw, hidraw, event), 0o777)
}

func (l *ledDev) start(waitFrame time.Duration) string {
	if err := makeSysNode(l.hidraw, l.evname); err != nil {
		return "nosys"
	}
	srv, port, err := startFakeRGB(l.devName, l.hidraw, l.leds, l.ncolors)
	if err != nil {
		return "nolisten"
	}
	l.srv = srv
	srv.slow = l.slowSrv
	r := l.r
	r.midiOut = make(chan midi.Event, 1<<14)
	if l.slowSink > 0 {
		// the 8-slot output queue of cmd/hidi/main.go and a receiver that takes its time: a burst (panic: 129 messages)
		// then lasts longer than one LED refresh cycle
		r.slow, r.slowDelay = true, l.slowSink
		r.midiOut = make(chan midi.Event, 8)
		r.slowAck = make(chan bool)
		go r.slowReader(r.midiOut, r.slowAck)
	}
	r.midiIn = make(chan midi.Event)
	r.sigs = make(chan os.Signal, 1024)
	inputDevice := input.Device{Name: "Dummy", DeviceType: input.KeyboardDevice, AbsInfos: r.axes,
		Handlers: []input.Handler{{Name: "", DeviceInfo: input.VerifDeviceInfo("Dummy", l.evname, "")}}}
	d := NewDevice(inputDevice, config.DeviceConfig{ConfigFile: "verif", ConfigType: "verif", Config: r.cfg},
		r.midiOut, r.midiIn, true, port, r.sigs)
	r.dev = &d
	l.in = make(chan *input.InputEvent)
	l.done = make(chan struct{})
	go func() {
		defer func() {
			if e := recover(); e != nil {
				l.paniced = true
			}
			close(l.done)
		}()
		r.dev.ProcessEvents(l.in)
	}()
	deadline := time.Now().Add(waitFrame)
	for time.Now().Before(deadline) {
		if _, n := srv.frame(); n > 0 {
			return "started"
		}
		time.Sleep(5 * time.Millisecond)
	}
	return "noframes"
}

func (l *ledDev) send(ie *input.InputEvent) bool {
	select {
	case l.in <- ie:
		return true
	case <-time.After(2 * time.Second):
		return false
	}
}

func (l *ledDev) stop(limit time.Duration) (bool, time.Duration) {
	t0 := time.Now()
	close(l.in)
	select {
	case <-l.done:
		return true, time.Since(t0)
	case <-time.After(limit):
		return false, time.Since(t0)
	}
}

func deviceGoroutines() int {
	buf := make([]byte, 1<<21)
	n := runtime.Stack(buf, true)
	c := 0
	for _, g := range strings.Split(string(buf[:n]), "\n\n") {
		// a goroutine that is executing (or was started by) code of package device proper: a frame — or the `created by`
		// line — whose source file lies in the package directory and is not a test file (the harness itself lives in
		// *_test.go files of the same package)
		own := false
		for _, line := range strings.Split(g, "\n") {
			line = strings.TrimSpace(line)
			if !strings.Contains(line, "/internal/pkg/midi/device/") || !strings.Contains(line, ".go:") {
				continue
			}
			file := line[:strings.Index(line, ".go:")+3]
			if strings.Contains(file, "/internal/pkg/midi/device/config/") {
				continue
			}
			if !strings.HasSuffix(file, "_test.go") {
				own = true
			}
		}
		if own {
			c++
		}
	}
	return c
}

type ledRunner struct {
	v       vrunner
	l       *ledDev
	devName string
	leds    []string
	ncolors int
	nextHid int
}

// syncInput returns once every input event sent before has been processed (EV_SYN is ignored by processEvent)
func (r *ledRunner) syncInput() bool {
	return r.l.send(&input.InputEvent{
		Source: input.Handler{Name: "", DeviceInfo: input.VerifDeviceInfo("Dummy", "", "")},
		Event:  evdev.InputEvent{Type: evdev.EV_SYN},
	})
}

// syncMidi returns once every MIDI-input message sent before has been processed (0xFE, active sensing, is ignored)
func (r *ledRunner) syncMidi() bool {
	select {
	case r.v.midiIn <- midi.Event{0xFE}:
		return true
	case <-time.After(2 * time.Second):
		return false
	}
}

func (r *ledRunner) sync() bool { return r.syncInput() && r.syncMidi() }

func mkKey(sub string, code, val int) *input.InputEvent {
	return &input.InputEvent{
		Source: input.Handler{Name: sub, DeviceInfo: input.VerifDeviceInfo("Dummy", "", "")},
		Event:  evdev.InputEvent{Type: evdev.EV_KEY, Code: evdev.EvCode(code), Value: int32(val)},
	}
}

func (r *ledRunner) line(toks []string) (string, bool) {
	switch toks[0] {
	case "led.layout":
		// led.layout <hex device name> <ncolors> <hex led name>...
		b, _ := hex.DecodeString(toks[1])
		r.devName = string(b)
		r.ncolors = atoi(toks[2])
		r.leds = nil
		for _, t := range toks[3:] {
			n, _ := hex.DecodeString(t)
			r.leds = append(r.leds, string(n))
		}
		return "", false
	case "cfg.end":
		return "", false
	case "led.shift":
		return "", false
	case "led.shiftq":
		// the real shiftColor(c, 0) for each colour given as 24-bit decimal
		var parts []string
		for _, t := range toks[1:] {
			v := atoi(t)
			c := shiftColor(openrgb.Color{Red: byte(v >> 16), Green: byte(v >> 8), Blue: byte(v)}, 0)
			parts = append(parts, strconv.Itoa(int(c.Red)<<16|int(c.Green)<<8|int(c.Blue)))
		}
		return strings.Join(parts, " "), true
	case "led.state":
		if !r.sync() {
			return "stuck", true
		}
		r.v.dev.eventProcessMutex.Lock()
		st := fmt.Sprintf("%d %d %d %d", r.v.dev.octave, r.v.dev.semitone, r.v.dev.channel, r.v.dev.mapping)
		r.v.dev.eventProcessMutex.Unlock()
		return st, true
	case "led.start":
		r.nextHid++
		r.l = &ledDev{r: &r.v, evname: fmt.Sprintf("event%d", 100+r.nextHid), hidraw: r.nextHid, devName: r.devName, leds: r.leds, ncolors: r.ncolors}
		return r.l.start(3 * time.Second), true
	case "key":
		if !r.l.send(mkKey(subTok(toks[1]), atoi(toks[2]), atoi(toks[3]))) {
			return "stuck", true
		}
		// the event loop is sequential and the channel unbuffered: once a second (ignored) event has been taken, the
		// first one has been processed completely and its MIDI output is in the output channel
		if !r.syncInput() {
			return "stuck", true
		}
		return r.v.drain(), true
	case "midiin":
		b, _ := hex.DecodeString(toks[1])
		select {
		case r.v.midiIn <- midi.Event(b):
		case <-time.After(2 * time.Second):
			return "stuck", true
		}
		// MIDI input and key events are handled by two goroutines: the script's order is the order of processing only
		// if this message has been processed before the next operation is issued
		if !r.syncMidi() {
			return "stuck", true
		}
		return "", true
	case "led.frame":
		// every earlier operation has been processed (sync), then two further frames have arrived: the first of them
		// may have been computed before the sync, the second one was computed after it
		if !r.sync() {
			select {
			case <-r.l.done:
				if r.l.paniced {
					return "PANIC", true
				}
			default:
			}
			return "stuck", true
		}
		_, n0 := r.l.srv.frame()
		deadline := time.Now().Add(10 * time.Second)
		for {
			select {
			case <-r.l.done:
				if r.l.paniced {
					return "PANIC", true
				}
			default:
			}
			if _, n := r.l.srv.frame(); n >= n0+2 || time.Now().After(deadline) {
				break
			}
			time.Sleep(2 * time.Millisecond)
		}
		f, _ := r.l.srv.frame()
		return f, true
	case "led.disconnect":
		ok, dt := r.l.stop(3 * time.Second)
		time.Sleep(30 * time.Millisecond)
		f, _ := r.l.srv.frame()
		st := "returned"
		if !ok {
			st = "running"
		}
		if r.l.paniced {
			st = "PANIC"
		}
		out := r.v.drain()
		parts := strings.Fields(out)
		sort.Strings(parts)
		slow := 0
		if dt > time.Second {
			slow = 1
		}
		return fmt.Sprintf("%s %d leftover=%d | %s | %s", st, slow, deviceGoroutines(), strings.Join(parts, " "), f), true
	case "life.run":
		seed, _ := strconv.ParseInt(toks[1], 10, 64)
		return lifeRun(seed, atoi(toks[2]), &r.nextHid, false), true
	case "life.alone":
		seed, _ := strconv.ParseInt(toks[1], 10, 64)
		return lifeRun(seed, atoi(toks[2]), &r.nextHid, true), true
	}
	return r.v.line(toks)
}

// ---------------------------------------------------------------- lifecycle: several devices concurrently

func lifeCfg(rng *rand.Rand) (config.Config, []int, []int) {
	mode := []config.CollisionMode{"off", "no_repeat", "interrupt", "retrigger"}[rng.Intn(4)]
	cfg := config.Config{
		ActionMapping: map[evdev.EvCode]config.Action{},
		CollisionMode: mode,
		Defaults:      config.Defaults{Octave: rng.Intn(3) - 1, Semitone: 0, Channel: 1 + rng.Intn(16), Mapping: 0, Velocity: 64},
	}
	km := config.KeyMapping{Name: "Piano", Midi: map[string]map[evdev.EvCode]config.Key{"": {}},
		Analog: map[string]map[evdev.EvCode]config.Analog{}, Deadzones: map[string]map[evdev.EvCode]float64{}, DefaultDeadzone: map[string]float64{"": 0}}
	var keys []int
	for i := 0; i < 6; i++ {
		code := 16 + i // KEY_Q..
		km.Midi[""][evdev.EvCode(code)] = config.Key{Note: byte(48 + rng.Intn(24)), ChannelOffset: byte(rng.Intn(3))}
		keys = append(keys, code)
	}
	if rng.Intn(2) == 0 {
		// an axis mapped to a controller; the deadzone differs from device to device (same mapping name "Piano" everywhere)
		km.Analog[""] = map[evdev.EvCode]config.Analog{0: {MappingType: config.AnalogCC, CC: byte(20 + rng.Intn(8))}}
		km.DefaultDeadzone[""] = []float64{0, 0.1, 0.3, 0.5}[rng.Intn(4)]
	}
	cfg.KeyMappings = []config.KeyMapping{km}
	acts := []config.Action{config.OctaveUp, config.OctaveDown, config.SemitoneUp, config.SemitoneDown, config.ChannelUp,
		config.ChannelDown, config.MappingUp, config.MappingDown, config.Multinote, config.Panic}
	var akeys []int
	for i, a := range acts {
		cfg.ActionMapping[evdev.EvCode(59+i)] = a
		akeys = append(akeys, 59+i)
	}
	return cfg, keys, akeys
}

var lifeLeds = []string{"Key: Escape", "Key: Q", "Key: W", "Key: E", "Key: R", "Key: T", "Key: Y", "Key: F1", "Key: F2", "Key: F3",
	"Key: F4", "Key: F5", "Key: F6", "Key: F7", "Key: F8", "Key: F9", "Key: F10"}

type lifeScript struct {
	cfg    config.Config
	events [][3]int // code, value, sleep-after (µs)
	midiin [][]byte
}

func runScript(s lifeScript, hid int, concurrent bool, withLeds bool, barrier ...*sync.WaitGroup) (out []string, returned bool, paniced bool, dt time.Duration) {
	v := &vrunner{cfg: s.cfg, axes: map[string]map[evdev.EvCode]evdev.AbsInfo{"": {0: {Minimum: -128, Maximum: 127}}}}
	l := &ledDev{r: v, evname: fmt.Sprintf("event%d", 100+hid), hidraw: hid, devName: "fake", leds: lifeLeds, ncolors: len(lifeLeds)}
	if !withLeds {
		l.hidraw = 0 // no sysfs node for hidraw0 is ever created: the LED loop gives up looking for its controller
	} else if hid%4 == 2 && concurrent {
		l.slowSink = 150 * time.Microsecond
	} else if hid%4 == 1 {
		// a server that takes longer than one retry interval (250 ms) to answer during the connection phase
		l.slowSrv = 400 * time.Millisecond
	}
	if l.slowSrv > 0 {
		// … and the device is used only once its LED loop is running (the connection phase, with its slow attempt, is over)
		l.start(4 * time.Second)
	} else {
		l.start(0)
	}
	if concurrent && withLeds {
		// let the LED loop get going for some of the devices, not for others
		time.Sleep(time.Duration(hid%3) * 300 * time.Millisecond)
	}
	stopMidi := make(chan struct{})
	var mwg sync.WaitGroup
	mwg.Add(1)
	go func() {
		defer mwg.Done()
		for _, m := range s.midiin {
			select {
			case v.midiIn <- midi.Event(m):
			case <-stopMidi:
				return
			}
			if concurrent {
				time.Sleep(200 * time.Microsecond)
			}
		}
	}()
	for k, e := range s.events {
		if concurrent && withLeds && hid%8 == 4 && k == len(s.events)/2 {
			// the OpenRGB server goes away half-way; the device is used for a while longer and then unplugged
			l.srv.die()
			time.Sleep(150 * time.Millisecond)
		}
		ie := mkKey("", e[0], e[1])
		if e[0] < 0 {
			// an axis position (ABS_X)
			ie = &input.InputEvent{Source: input.Handler{Name: "", DeviceInfo: input.VerifDeviceInfo("Dummy", "", "")},
				Event: evdev.InputEvent{Type: evdev.EV_ABS, Code: 0, Value: int32(e[1])}}
		}
		if !l.send(ie) {
			break
		}
		if concurrent && e[2] > 0 {
			time.Sleep(time.Duration(e[2]) * time.Microsecond)
		}
	}
	if len(barrier) > 0 && barrier[0] != nil {
		// all devices of this run are unplugged at the same moment (a hub pulled, the application shutting down)
		barrier[0].Done()
		barrier[0].Wait()
	}
	returned, dt = l.stop(2 * time.Second)
	close(stopMidi)
	mwg.Wait()
	for _, tok := range strings.Fields(v.drain()) {
		out = append(out, tok)
	}
	l.srv.ln.Close()
	return out, returned, l.paniced, dt
}

// lifeRun: n devices with different scripts run concurrently (LED loops against their own fake servers, MIDI-in
// traffic, disconnect at a random moment, possibly with keys held); afterwards every script is run again alone.
// Reports: every ProcessEvents returned, how long the slowest took, goroutines left over, and whether each
// device's MIDI output under concurrency equals its output when run alone (the disconnect clean-up is compared as a multiset).
func lifeRun(seed int64, n int, nextHid *int, aloneOnly bool) string {
	rng := rand.New(rand.NewSource(seed))
	var scripts []lifeScript
	for i := 0; i < n; i++ {
		cfg, keys, akeys := lifeCfg(rng)
		var s lifeScript
		s.cfg = cfg
		down := map[int]bool{}
		hasAxis := len(cfg.KeyMappings[0].Analog[""]) > 0
		for j := 0; j < 10+rng.Intn(60); j++ {
			if hasAxis && rng.Intn(4) == 0 {
				s.events = append(s.events, [3]int{-1, []int{-128, 127, 0, 10, 20, 40, 64, -30, rng.Intn(256) - 128}[rng.Intn(9)], rng.Intn(3) * rng.Intn(2000)})
				continue
			}
			var code int
			if rng.Intn(4) == 0 {
				code = akeys[rng.Intn(len(akeys))]
			} else {
				code = keys[rng.Intn(len(keys))]
			}
			val := 1
			if down[code] {
				val = 0
			}
			down[code] = val == 1
			s.events = append(s.events, [3]int{code, val, rng.Intn(4) * rng.Intn(4000)})
		}
		for j := 0; j < rng.Intn(40); j++ {
			st := byte(0x90)
			if rng.Intn(3) == 0 {
				st = 0x80
			}
			m := []byte{st | byte(rng.Intn(16)), byte(40 + rng.Intn(40)), byte(rng.Intn(2) * 64)}
			if rng.Intn(6) == 0 {
				// controllers and channel-mode messages arrive on MIDI input as well (All Notes Off, All Sound Off, volume …)
				m = []byte{0xb0 | byte(rng.Intn(16)), []byte{123, 120, 7, 64, 121}[rng.Intn(5)], byte(rng.Intn(2) * 127)}
			}
			s.midiin = append(s.midiin, m)
		}
		scripts = append(scripts, s)
	}
	if aloneOnly {
		// every script alone, one after the other, last first — run in another process than the concurrent run, so that
		// state shared through the package (and not through the Device) cannot make both runs wrong in the same way
		var parts []string
		outs := make([]string, n)
		for i := n - 1; i >= 0; i-- {
			*nextHid++
			o, _, _, _ := runScript(scripts[i], *nextHid, false, false)
			outs[i] = strings.Join(o, ",")
		}
		parts = append(parts, outs...)
		return "alone=" + strings.Join(parts, ";")
	}
	type res struct {
		out      []string
		returned bool
		paniced  bool
		dt       time.Duration
	}
	conc := make([]res, n)
	var wg sync.WaitGroup
	hid0 := *nextHid
	*nextHid += n
	var together *sync.WaitGroup
	if seed%2 == 0 && n > 1 {
		together = &sync.WaitGroup{}
		together.Add(n)
	}
	for i := range scripts {
		wg.Add(1)
		go func(i int) {
			defer wg.Done()
			o, r, p, dt := runScript(scripts[i], hid0+1+i, true, i%4 != 3, together)
			conc[i] = res{o, r, p, dt}
		}(i)
	}
	wg.Wait()
	// every device of this process has been disconnected: no goroutine of package device may remain
	left := deviceGoroutines()
	for t := 0; left != 0 && t < 100; t++ {
		time.Sleep(10 * time.Millisecond)
		left = deviceGoroutines()
	}
	if os.Getenv("VERIF_DUMP") != "" {
		buf := make([]byte, 1<<21)
		n := runtime.Stack(buf, true)
		fmt.Fprintf(os.Stderr, "DUMP leftover=%d\n%s\n", left, buf[:n])
	}
	allRet, anyPanic, slowest := true, false, time.Duration(0)
	for _, c := range conc {
		allRet = allRet && c.returned
		anyPanic = anyPanic || c.paniced
		if c.dt > slowest {
			slowest = c.dt
		}
	}
	cross := "same"
	for i := range scripts {
		*nextHid++
		o, _, _, _ := runScript(scripts[i], *nextHid, false, false)
		a, b := append([]string{}, conc[i].out...), append([]string{}, o...)
		// the output up to the disconnect is ordered; the clean-up part iterates a map: compare both as multisets after the
		// longest common prefix
		k := 0
		for k < len(a) && k < len(b) && a[k] == b[k] {
			k++
		}
		ra, rb := a[k:], b[k:]
		sort.Strings(ra)
		sort.Strings(rb)
		if strings.Join(ra, " ") != strings.Join(rb, " ") {
			cross = fmt.Sprintf("device%d-differs:concurrent=%s;alone=%s", i, strings.Join(a, ","), strings.Join(b, ","))
			break
		}
	}
	var couts []string
	for _, c := range conc {
		couts = append(couts, strings.Join(c.out, ","))
	}
	return fmt.Sprintf("returned=%v panic=%v slowest_ms=%d leftover=%d conc=%s output=%s", allRet, anyPanic, slowest.Milliseconds(), left,
		strings.Join(couts, ";"), cross)
}

func TestVerifLed(t *testing.T) {
	outPath := os.Getenv("VERIF_OUT")
	if outPath == "" {
		t.Skip("VERIF_OUT not set")
	}
	f, err := os.Create(outPath)
	if err != nil {
		t.Fatal(err)
	}
	defer f.Close()
	w := bufio.NewWriter(f)
	defer w.Flush()
	in, err := os.Open(os.Getenv("VERIF_IN"))
	if err != nil {
		t.Fatal(err)
	}
	defer in.Close()
	sc := bufio.NewScanner(in)
	sc.Buffer(make([]byte, 1<<20), 1<<24)
	r := &ledRunner{}
	for sc.Scan() {
		line := sc.Text()
		toks := strings.Fields(line)
		if len(toks) == 0 || strings.HasPrefix(toks[0], "#") {
			continue
		}
		if toks[0] == "case" {
			fmt.Fprintln(w, line)
			w.Flush()
			continue
		}
		out, ok := r.line(toks)
		if ok {
			fmt.Fprintln(w, out)
			w.Flush()
		}
	}
}

var _ = openrgb.Color{}
