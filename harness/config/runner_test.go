//go:build verif

package config

// Line-protocol runner for package config: note names (C11), ParseData (C09/C10),
// LoadDeviceConfigs/FindConfig (C12). Injected with `go test -overlay`.

import (
	"bufio"
	"encoding/hex"
	"fmt"
	"os"
	"strconv"
	"strings"
	"testing"

	"github.com/gethiox/HIDI/internal/pkg/logger"
)

func init() {
	go func() {
		for range logger.Messages {
		}
	}()
}

func unhex(s string) string {
	if s == "-" {
		return ""
	}
	b, err := hex.DecodeString(s)
	if err != nil {
		panic("bad hex: " + s)
	}
	return string(b)
}

func enhex(s string) string {
	if s == "" {
		return "-"
	}
	return hex.EncodeToString([]byte(s))
}

type crunner struct {
	parse parseState
	load  loadState
}

func (r *crunner) line(toks []string) (out string, ok bool) {
	defer func() {
		if e := recover(); e != nil {
			out, ok = "panic", true
		}
	}()
	switch toks[0] {
	case "s2n":
		n, err := StringToNote(unhex(toks[1]))
		if err != nil {
			return "err", true
		}
		return strconv.Itoa(int(n)), true
	case "n2s":
		n, _ := strconv.Atoi(toks[1])
		return fmt.Sprintf("%s %d", enhex(NoteToPitch(byte(n))), NoteToOctave(byte(n))), true
	}
	if strings.HasPrefix(toks[0], "t.") || toks[0] == "raw" {
		return r.parse.line(toks)
	}
	if strings.HasPrefix(toks[0], "tree.") || toks[0] == "find" {
		return r.load.line(toks)
	}
	return "bad-op", true
}

func TestVerifRunner(t *testing.T) {
	outPath := os.Getenv("VERIF_OUT")
	if outPath == "" {
		t.Skip("VERIF_OUT not set")
	}
	f, err := os.Create(outPath)
	if err != nil {
		t.Fatal(err)
	}
	defer f.Close()
	w := bufio.NewWriterSize(f, 1<<20)
	defer w.Flush()
	in := os.Stdin
	if p := os.Getenv("VERIF_IN"); p != "" {
		in, err = os.Open(p)
		if err != nil {
			t.Fatal(err)
		}
		defer in.Close()
	}
	sc := bufio.NewScanner(in)
	sc.Buffer(make([]byte, 1<<20), 1<<26)
	r := &crunner{}
	for sc.Scan() {
		line := sc.Text()
		toks := strings.Fields(line)
		if len(toks) == 0 || strings.HasPrefix(toks[0], "#") {
			continue
		}
		if toks[0] == "case" {
			fmt.Fprintln(w, line)
			continue
		}
		out, ok := r.line(toks)
		if ok {
			fmt.Fprintln(w, out)
		}
	}
}
