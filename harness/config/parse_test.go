//go:build verif

package config

type parseState struct{}

func (p *parseState) line(toks []string) (string, bool) { return "bad-op", true }

type loadState struct{}

func (l *loadState) line(toks []string) (string, bool) { return "bad-op", true }
