//go:build verif

package config

import (
	"bytes"
	"context"
	"errors"
	"fmt"
	"os"
	"path/filepath"
	"sync"
	"time"
	"math"
	"math/big"
	"sort"
	"strconv"
	"strings"

	"github.com/gethiox/HIDI/internal/pkg/input"
	"github.com/holoplot/go-evdev"
	"github.com/pelletier/go-toml/v2"
)

type parseState struct{ hangs int }

// a call that has not returned after this long is reported as a hang (C09)
const hangLimit = 4 * time.Second


func optInt(p *int) string {
	if p == nil {
		return "-"
	}
	return strconv.Itoa(*p)
}

func optStr(p *string) string {
	if p == nil {
		return "~"
	}
	return enhex(*p)
}

func b01(b bool) string {
	if b {
		return "1"
	}
	return "0"
}

func bits(f float64) string { return strconv.FormatUint(math.Float64bits(f), 10) }

// serialise the decoded structure as the `t.*` lines of the protocol (map entries sorted by key)
func serialise(cfg *TOMLDeviceConfig) []string {
	var out []string
	out = append(out, fmt.Sprintf("t.begin %s %d %d %d %d %s %d %d %d %s %d %d %d %d %d %d %d %d",
		enhex(cfg.CollisionMode), cfg.Identifier.Bus, cfg.Identifier.Vendor, cfg.Identifier.Product, cfg.Identifier.Version,
		enhex(cfg.Identifier.Uniq), cfg.Defaults.Octave, cfg.Defaults.Semitone, cfg.Defaults.Channel, enhex(cfg.Defaults.Mapping),
		cfg.Defaults.Velocity, cfg.OpenRGB.White, cfg.OpenRGB.Black, cfg.OpenRGB.C, cfg.OpenRGB.Unavailable, cfg.OpenRGB.Other,
		cfg.OpenRGB.Active, cfg.OpenRGB.ActiveExternal))
	if len(cfg.ExitSequence) > 0 {
		l := "t.exit"
		for _, k := range cfg.ExitSequence {
			l += " " + enhex(k)
		}
		out = append(out, l)
	}
	var ks []string
	for k := range cfg.ActionMapping {
		ks = append(ks, k)
	}
	sort.Strings(ks)
	for _, k := range ks {
		out = append(out, fmt.Sprintf("t.action %s %s", enhex(k), enhex(cfg.ActionMapping[k])))
	}
	for _, m := range cfg.KeyMappings {
		out = append(out, "t.map "+enhex(m.Name))
		for _, km := range m.KeyMapping {
			out = append(out, "t.keys "+enhex(km.SubHandler))
			ks = nil
			for k := range km.Map {
				ks = append(ks, k)
			}
			sort.Strings(ks)
			for _, k := range ks {
				out = append(out, fmt.Sprintf("t.key %s %s", enhex(k), enhex(km.Map[k])))
			}
		}
		for _, am := range m.AnalogMapping {
			out = append(out, fmt.Sprintf("t.analog %s %s", enhex(am.SubHandler), bits(am.DefaultDeadzone)))
			ks = nil
			for k := range am.Map {
				ks = append(ks, k)
			}
			sort.Strings(ks)
			for _, k := range ks {
				a := am.Map[k]
				out = append(out, fmt.Sprintf("t.abs %s %s %s %s %s %s %d %d %s %s %s %s", enhex(k), enhex(a.Type), optInt(a.CC),
					optInt(a.CCNegative), optInt(a.Note), optInt(a.NoteNegative), a.ChannelOffset, a.ChannelOffsetNegative,
					optStr(a.Action), optStr(a.ActionNegative), b01(a.FlipAxis), b01(a.DeadzoneAtCenter)))
			}
			ks = nil
			for k := range am.Deadzones {
				ks = append(ks, k)
			}
			sort.Strings(ks)
			for _, k := range ks {
				out = append(out, fmt.Sprintf("t.dz %s %s", enhex(k), bits(am.Deadzones[k])))
			}
		}
	}
	out = append(out, "t.end")
	return out
}

func ratStr(f float64) string {
	if math.IsNaN(f) || math.IsInf(f, 0) {
		return "nan"
	}
	r := new(big.Rat).SetFloat64(f)
	return r.Num().String() + "/" + r.Denom().String()
}

func actTok(a Action) string {
	if a == "" {
		return "-"
	}
	return string(a)
}

func dumpConfig(c Config) string {
	var acts []string
	for code, a := range c.ActionMapping {
		acts = append(acts, fmt.Sprintf("%d:%s", code, actTok(a)))
	}
	sort.Strings(acts)
	var ex []string
	for _, e := range c.ExitSequence {
		ex = append(ex, strconv.Itoa(int(e)))
	}
	col := c.OpenRGB.Colors
	var cols []string
	for _, x := range []struct{ Red, Green, Blue byte }{
		{col.White.Red, col.White.Green, col.White.Blue}, {col.Black.Red, col.Black.Green, col.Black.Blue},
		{col.C.Red, col.C.Green, col.C.Blue}, {col.Unavailable.Red, col.Unavailable.Green, col.Unavailable.Blue},
		{col.Other.Red, col.Other.Green, col.Other.Blue}, {col.Active.Red, col.Active.Green, col.Active.Blue},
		{col.ActiveExternal.Red, col.ActiveExternal.Green, col.ActiveExternal.Blue}} {
		cols = append(cols, fmt.Sprintf("%d.%d.%d", x.Red, x.Green, x.Blue))
	}
	var maps []string
	for _, m := range c.KeyMappings {
		var midi, ana, dz, dd []string
		for sub, t := range m.Midi {
			for code, k := range t {
				midi = append(midi, fmt.Sprintf("%s/%d:%d/%d", enhex(sub), code, k.Note, k.ChannelOffset))
			}
		}
		for sub, t := range m.Analog {
			for code, a := range t {
				ana = append(ana, fmt.Sprintf("%s/%d:%s/%d/%d/%d/%d/%d/%d/%s/%s/%s/%s/%s", enhex(sub), code, a.MappingType, a.CC, a.CCNeg,
					a.Note, a.NoteNeg, a.ChannelOffset, a.ChannelOffsetNeg, actTok(a.Action), actTok(a.ActionNeg), b01(a.FlipAxis),
					b01(a.Bidirectional), b01(a.DeadzoneAtCenter)))
			}
		}
		for sub, t := range m.Deadzones {
			for code, z := range t {
				dz = append(dz, fmt.Sprintf("%s/%d:%s", enhex(sub), code, ratStr(z)))
			}
		}
		for sub, z := range m.DefaultDeadzone {
			dd = append(dd, fmt.Sprintf("%s:%s", enhex(sub), ratStr(z)))
		}
		sort.Strings(midi)
		sort.Strings(ana)
		sort.Strings(dz)
		sort.Strings(dd)
		maps = append(maps, fmt.Sprintf("%s{midi=%s;analog=%s;dz=%s;defdz=%s}", enhex(m.Name), strings.Join(midi, ","),
			strings.Join(ana, ","), strings.Join(dz, ","), strings.Join(dd, ",")))
	}
	return fmt.Sprintf("ok id=%d:%d:%d:%d uniq=%s mode=%s exit=%s def=%d,%d,%d,%d,%d colors=%s actions=%s maps=%s",
		c.ID.Bus, c.ID.Vendor, c.ID.Product, c.ID.Version, enhex(c.Uniq), c.CollisionMode, strings.Join(ex, ","),
		c.Defaults.Octave, c.Defaults.Semitone, c.Defaults.Channel, c.Defaults.Mapping, c.Defaults.Velocity,
		strings.Join(cols, ","), strings.Join(acts, ","), strings.Join(maps, "|"))
}

var _ = evdev.KEY_A

// limit is the waiting time for one ParseData call: hangLimit; a sixteenth of it once three calls of this process have
// hung, 20 ms after ten (a tree on which nothing hangs never gets there; one on which every call hangs is not waited for
// by the hour)
func (p *parseState) limit() time.Duration {
	if p.hangs >= 10 {
		return 20 * time.Millisecond
	}
	if p.hangs >= 3 {
		return hangLimit / 16
	}
	return hangLimit
}

func (p *parseState) line(toks []string) (string, bool) {
	switch toks[0] {
	case "raw":
		data := []byte(unhex(toks[1]))
		// 1. the real ParseData
		res := ""
		done := make(chan string, 1)
		go func() {
			r := ""
			defer func() {
				if e := recover(); e != nil {
					r = "panic"
				}
				done <- r
			}()
			c, err := ParseData(data)
			if err != nil {
				r = "err"
			} else {
				r = dumpConfig(c)
			}
		}()
		select {
		case res = <-done:
		case <-time.After(p.limit()):
			// the call did not return: reported as "hang"; the goroutine is abandoned
			res = "hang"
			p.hangs++
		}
		if res == "hang" {
			return "hang ;;; -", true
		}
		// 2. the decoded structure, with the decoder set up as ParseData sets it up
		ser := "-"
		func() {
			defer func() {
				if e := recover(); e != nil {
					ser = "decode-panic"
				}
			}()
			cfg := TOMLDeviceConfig{}
			d := toml.NewDecoder(bytes.NewReader(data))
			d.DisallowUnknownFields()
			if err := d.Decode(&cfg); err != nil {
				ser = "decode-err"
				return
			}
			ser = strings.Join(serialise(&cfg), " ;; ")
		}()
		return res + " ;;; " + ser, true
	}
	return "bad-op", true
}

type loadState struct {
	hangs  int
	dir    string
	cfgs   *DeviceConfigs
	loaded string
}

var rootDirs = []string{factoryGamepad, factoryKeyboard, userGamepad, userKeyboard}

func (l *loadState) reset() {
	if l.dir != "" {
		os.RemoveAll(l.dir)
	}
	d, err := os.MkdirTemp(os.Getenv("VERIF_TMP"), "load-")
	if err != nil {
		panic(err)
	}
	l.dir = d
	for _, r := range rootDirs {
		os.MkdirAll(filepath.Join(d, r), 0o777)
	}
	l.cfgs = nil
}

func dumpCM(m ConfigMap) string {
	var items []string
	for id, c := range m {
		items = append(items, fmt.Sprintf("%d:%d:%d:%d=%s", id.Bus, id.Vendor, id.Product, id.Version, enhex(c.ConfigFile)))
	}
	sort.Strings(items)
	return strings.Join(items, ",")
}

func (l *loadState) line(toks []string) (string, bool) {
	switch toks[0] {
	case "tree.reset":
		l.reset()
		return "", false
	case "tree.missing":
		r, _ := strconv.Atoi(toks[1])
		os.RemoveAll(filepath.Join(l.dir, rootDirs[r]))
		return "", false
	case "tree.dir":
		r, _ := strconv.Atoi(toks[1])
		os.MkdirAll(filepath.Join(l.dir, rootDirs[r], unhex(toks[2])), 0o777)
		return "", false
	case "tree.file":
		r, _ := strconv.Atoi(toks[1])
		p := filepath.Join(l.dir, rootDirs[r], unhex(toks[2]))
		os.MkdirAll(filepath.Dir(p), 0o777)
		if err := os.WriteFile(p, []byte(unhex(toks[3])), 0o666); err != nil {
			panic(err)
		}
		return "", false
	case "tree.link":
		// tree.link <root> <name> <target>: a symbolic link; a target starting with "@" is relative to the tree's top
		r, _ := strconv.Atoi(toks[1])
		p := filepath.Join(l.dir, rootDirs[r], unhex(toks[2]))
		os.MkdirAll(filepath.Dir(p), 0o777)
		target := unhex(toks[3])
		if strings.HasPrefix(target, "@") {
			target = filepath.Join(l.dir, target[1:])
		}
		if err := os.Symlink(target, p); err != nil {
			panic(err)
		}
		return "", false
	case "tree.rewrite":
		// tree.rewrite <root> <name> <content> <keep>: the file is edited in place between two loads of the same tree;
		// keep=1: the modification time stays what it was (an edit within the time stamp's granularity, `cp -p`, `rsync -t`)
		r, _ := strconv.Atoi(toks[1])
		p := filepath.Join(l.dir, rootDirs[r], unhex(toks[2]))
		st, err := os.Stat(p)
		if err != nil {
			panic(err)
		}
		if err := os.WriteFile(p, []byte(unhex(toks[3])), 0o666); err != nil {
			panic(err)
		}
		if toks[4] == "1" {
			os.Chtimes(p, st.ModTime(), st.ModTime())
		}
		return "", false
	case "tree.remove":
		r, _ := strconv.Atoi(toks[1])
		os.Remove(filepath.Join(l.dir, rootDirs[r], unhex(toks[2])))
		return "", false
	case "tree.load":
		old, _ := os.Getwd()
		os.Chdir(l.dir)
		defer os.Chdir(old)
		// the load runs under a time limit: a loader that never returns is reported as "hang" (the goroutine is abandoned)
		done := make(chan string, 1)
		go func() {
			res := ""
			defer func() {
				if e := recover(); e != nil {
					res = "panic"
				}
				done <- res
			}()
			var wg sync.WaitGroup
			c, err := LoadDeviceConfigs(context.Background(), &wg)
			if err != nil {
				res = "err"
				return
			}
			l.cfgs = &c
			res = fmt.Sprintf("ok fg=[%s] fk=[%s] ug=[%s] uk=[%s]", dumpCM(c.Factory.Gamepads), dumpCM(c.Factory.Keyboards),
				dumpCM(c.User.Gamepads), dumpCM(c.User.Keyboards))
		}()
		limit := 8 * time.Second
		if l.hangs > 0 {
			limit = time.Second
		}
		select {
		case res := <-done:
			return res, true
		case <-time.After(limit):
			l.hangs++
			l.cfgs = nil
			return "hang", true
		}
	case "find":
		if l.cfgs == nil {
			return "noload", true
		}
		var n [5]int
		for i := 0; i < 5; i++ {
			n[i], _ = strconv.Atoi(toks[1+i])
		}
		id := input.InputID{Bus: uint16(n[0]), Vendor: uint16(n[1]), Product: uint16(n[2]), Version: uint16(n[3])}
		res := ""
		func() {
			defer func() {
				if e := recover(); e != nil {
					res = "panic"
				}
			}()
			c, err := l.cfgs.FindConfig(id, input.DeviceType(n[4]))
			if err != nil {
				if errors.Is(err, UnsupportedDeviceType) {
					res = "err:unsupported"
				} else {
					res = "err:notfound"
				}
				return
			}
			res = fmt.Sprintf("ok %s %s", enhex(c.ConfigFile), c.ConfigType)
		}()
		return res, true
	}
	return "bad-op", true
}
