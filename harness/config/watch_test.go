//go:build verif

package config

// Line-protocol runner for DetectDeviceConfigChanges (C19).  One case at a time per process (the function works
// relative to the working directory); the orchestrator runs several processes in parallel.

import (
	"github.com/fsnotify/fsnotify"
	"syscall"
	"bufio"
	"context"
	"fmt"
	"os"
	"path/filepath"
	"runtime"
	"strconv"
	"strings"
	"testing"
	"time"
)

type watchCase struct {
	dir    string
	ctx    context.Context
	cancel context.CancelFunc
	ch     <-chan bool
	closed bool
}

func watcherGoroutineAlive() bool {
	buf := make([]byte, 1<<20)
	n := runtime.Stack(buf, true)
	return strings.Contains(string(buf[:n]), "config.DetectDeviceConfigChanges.func1(")
}

// watcherResourcesLeft: the fsnotify watcher behind the goroutine is still open — its reader goroutine is alive or an
// inotify descriptor is still held by this process ("the watcher stops")
func watcherResourcesLeft() bool {
	buf := make([]byte, 1<<20)
	n := runtime.Stack(buf, true)
	if strings.Contains(string(buf[:n]), "fsnotify.(*Watcher).readEvents") {
		return true
	}
	ents, err := os.ReadDir("/proc/self/fd")
	if err != nil {
		return false
	}
	for _, e := range ents {
		if l, err := os.Readlink("/proc/self/fd/" + e.Name()); err == nil && strings.Contains(l, "inotify") {
			return true
		}
	}
	return false
}

func (c *watchCase) line(toks []string) (string, bool) {
	ms := func(i int) time.Duration {
		v, _ := strconv.Atoi(toks[i])
		return time.Duration(v) * time.Millisecond
	}
	switch toks[0] {
	case "w.reset":
		if c.cancel != nil {
			c.cancel()
			// drain so that a blocked goroutine of an earlier case cannot linger into this one
			if c.ch != nil && !c.closed {
				t := time.After(500 * time.Millisecond)
			loop:
				for {
					select {
					case _, ok := <-c.ch:
						if !ok {
							break loop
						}
					case <-t:
						break loop
					}
				}
			}
		}
		if c.dir != "" {
			os.Chdir("/")
			os.RemoveAll(c.dir)
		}
		d, err := os.MkdirTemp(os.Getenv("VERIF_TMP"), "watch-")
		if err != nil {
			panic(err)
		}
		*c = watchCase{dir: d}
		for _, r := range rootDirs {
			os.MkdirAll(filepath.Join(d, r), 0o777)
		}
		return "", false
	case "w.file":
		r, _ := strconv.Atoi(toks[1])
		os.WriteFile(filepath.Join(c.dir, rootDirs[r], unhex(toks[2])), []byte("collision_mode = \"off\"\n"), 0o666)
		return "", false
	case "w.nodir":
		// one of the four directories does not exist when the watcher starts (and is not created later)
		r, _ := strconv.Atoi(toks[1])
		os.RemoveAll(filepath.Join(c.dir, rootDirs[r]))
		return "", false
	case "w.start":
		os.Chdir(c.dir)
		c.ctx, c.cancel = context.WithCancel(context.Background())
		c.ch = DetectDeviceConfigChanges(c.ctx)
		time.Sleep(60 * time.Millisecond) // let the watches be registered
		return "started", true
	case "w.mod":
		r, _ := strconv.Atoi(toks[1])
		p := filepath.Join(c.dir, rootDirs[r], unhex(toks[2]))
		switch toks[3] {
		case "a": // append in place
			f, err := os.OpenFile(p, os.O_WRONLY|os.O_APPEND, 0o666)
			if err == nil {
				f.Write([]byte("# edit\n"))
				f.Close()
			}
		case "t": // truncate and rewrite in place
			os.WriteFile(p, []byte("collision_mode = \"no_repeat\"\n"), 0o666)
		case "e": // emptied in place
			os.Truncate(p, 0)
		case "c": // a new file with content
			os.WriteFile(p, []byte("collision_mode = \"off\"\n"), 0o666)
		case "m":
			os.Chmod(p, 0o600)
		case "r":
			os.Remove(p)
		}
		return "", false
	case "w.nofd":
		// the watcher cannot be created (no file descriptor left: inotify_init1 fails with EMFILE): nothing may be
		// notified, and after cancellation the stream must still end.  Run in a process of its own.
		var old syscall.Rlimit
		if err := syscall.Getrlimit(syscall.RLIMIT_NOFILE, &old); err != nil {
			return "skip", true
		}
		low := old
		low.Cur = 0
		if err := syscall.Setrlimit(syscall.RLIMIT_NOFILE, &low); err != nil {
			return "skip", true
		}
		defer syscall.Setrlimit(syscall.RLIMIT_NOFILE, &old)
		if w, err := fsnotify.NewWatcher(); err == nil {
			w.Close()
			return "skip", true
		}
		os.Chdir(c.dir)
		ctx, cancel := context.WithCancel(context.Background())
		ch := DetectDeviceConfigChanges(ctx)
		res := "quiet"
		open := true
		running := time.After(300 * time.Millisecond)
	run:
		for open {
			select {
			case _, ok := <-ch:
				if ok {
					res = "spurious"
				} else {
					open = false
				}
			case <-running:
				break run
			}
		}
		cancel()
		deadline := time.After(1500 * time.Millisecond)
		for open {
			select {
			case _, ok := <-ch:
				if !ok {
					open = false
				}
			case <-deadline:
				return res + " open", true
			}
		}
		return res + " closed", true
	case "w.sleep":
		time.Sleep(ms(1))
		return "", false
	case "w.drain":
		// the consumer: wait up to <ms> for a first notification, then keep reading until 120 ms of silence
		if c.closed {
			return "closed", true
		}
		n := 0
		wait := ms(1)
		for {
			select {
			case _, ok := <-c.ch:
				if !ok {
					c.closed = true
					if n > 0 {
						return "some", true
					}
					return "closed", true
				}
				n++
				wait = 120 * time.Millisecond
				continue
			case <-time.After(wait):
			}
			break
		}
		if n > 0 {
			return "some", true
		}
		return "zero", true
	case "w.cancel":
		c.cancel()
		return "", false
	case "w.stopped":
		// without reading from the stream: does the watcher goroutine return?
		deadline := time.Now().Add(ms(1))
		for time.Now().Before(deadline) {
			if !watcherGoroutineAlive() && !watcherResourcesLeft() {
				return "stopped", true
			}
			time.Sleep(10 * time.Millisecond)
		}
		if watcherGoroutineAlive() {
			return "running", true
		}
		return "leaked", true // the goroutine returned but the file-system watcher was never closed
	case "w.closed":
		if c.closed {
			return "closed", true
		}
		t := time.After(ms(1))
		for {
			select {
			case _, ok := <-c.ch:
				if !ok {
					c.closed = true
					return "closed", true
				}
			case <-t:
				return "open", true
			}
		}
	case "w.end":
		return "", false
	}
	return "bad-op", true
}

func TestVerifWatch(t *testing.T) {
	outPath := os.Getenv("VERIF_OUT")
	if outPath == "" {
		t.Skip("VERIF_OUT not set")
	}
	f, err := os.Create(outPath)
	if err != nil {
		t.Fatal(err)
	}
	defer f.Close()
	w := bufio.NewWriter(f)
	defer w.Flush()
	in, err := os.Open(os.Getenv("VERIF_IN"))
	if err != nil {
		t.Fatal(err)
	}
	defer in.Close()
	sc := bufio.NewScanner(in)
	sc.Buffer(make([]byte, 1<<20), 1<<24)
	c := &watchCase{}
	for sc.Scan() {
		line := sc.Text()
		toks := strings.Fields(line)
		if len(toks) == 0 || strings.HasPrefix(toks[0], "#") {
			continue
		}
		if toks[0] == "case" {
			fmt.Fprintln(w, line)
			w.Flush()
			continue
		}
		out, ok := c.line(toks)
		if ok {
			fmt.Fprintln(w, out)
			w.Flush()
		}
	}
	if c.cancel != nil {
		c.cancel()
	}
	if c.dir != "" {
		os.Chdir("/")
		os.RemoveAll(c.dir)
	}
}
