#!/bin/sh
# Offline setup after a fresh restore: build the Lean model, driver and all proofs, and the Go runners.
cd "$(dirname "$0")" || exit 2
export GOFLAGS=-mod=mod GOPROXY=off GOSUMDB=off GOTOOLCHAIN=local
mkdir -p build work evidence
python3 - <<'PY'
import sys
sys.path.insert(0, 'orchestrator')
from common import *
ok, log_ = lean_gen()
print('gen', ok)
ok, log_ = lake_build(['Hidi', 'hidi-driver', 'HidiProofs'])
print('lake', ok)
if not ok:
    print(log_[-3000:]); sys.exit(1)
for name in GO_PKGS:
    import os
    b, o = go_build(name)
    print('go', name, bool(b))
PY
